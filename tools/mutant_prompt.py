#!/usr/bin/env python3
"""Print the brief given to an independent sub-agent that seeds a property-breaking change (tools/mutant_prompt.py <ID> [n])."""
import json, sys
pid = sys.argv[1]
n = int(sys.argv[2]) if len(sys.argv) > 2 else 2
start = int(sys.argv[3]) if len(sys.argv) > 3 else 1   # index of the first change (m<start>, m<start+1>, ...)
avoid = sys.argv[4:]                                     # one-line descriptions of changes that already exist
names = ["m%d" % (start + i) for i in range(n)]
p = [json.loads(l) for l in open('/verif/properties.jsonl') if json.loads(l)['id'] == pid][0]
wt = "/tmp/wt/%s" % pid
print(f"""You are helping to evaluate a verification effort for the Python workflow engine insitro/redun. Your job is to act as a
"bug seeder": produce {n} independent, realistic source changes to redun, each of which BREAKS the semantic property below while
the code still imports and the existing test suite still passes.

Property {p['id']}: {p['title']}
Statement: {p['statement']}
Quantified over: {p['quantifier'].get('text')}
Code the property is anchored in: {', '.join(p['anchors'].get('files', []))}

Your working copy: {wt} (a scratch git worktree of the repository; work ONLY inside it; never touch /repo or /verif, and do not
read anything under /verif). Python: run things from inside the worktree with /venv/bin/python so that `import redun` resolves to
the worktree (check with: cd {wt} && /venv/bin/python -c "import redun; print(redun.__file__)"). There is no network.

Requirements for each change:
 * It edits only files under redun/ (not tests), is small (a few lines), looks like a plausible refactoring slip or
   "optimisation" a developer could make, and keeps the code importable.
 * It must need something SPECIFIC to manifest - a particular interleaving or completion order, a crash/fault at a particular
   point, a multi-step sequence of operations, an unusual input value, or two cooperating sites that each look fine alone. It must
   NOT be something ordinary use or the existing tests would expose at once.
 * The existing tests most related to the touched code must still pass with the change applied. Run the relevant test files,
   e.g. `cd {wt} && /venv/bin/python -m pytest -q -p no:cacheprovider redun/tests/<relevant files>`; a handful of tests already
   fail on the unchanged tree (test_cli launch tests, federated task tests, examples/testing) - ignore those. If you have time, run
   the whole suite (`/venv/bin/python -m pytest -q -p no:cacheprovider --timeout=900`, about 5 minutes) and compare failures with
   the unchanged tree.
 * Provide a demonstration: a small standalone script (plain python, exits non-zero / asserts on failure) or pytest file that
   FAILS with the change applied and PASSES on the unchanged tree, showing the property being violated through redun's
   public behaviour.

Deliverables - your {n} changes are named {', '.join(names)}; create these files (the directory /tmp/wt/out/{pid}/ may need creating):
   /tmp/wt/out/{pid}/{names[0]}/patch.diff   (output of `git diff` in the worktree for change 1, applies with `git apply` to a clean tree)
   /tmp/wt/out/{pid}/{names[0]}/demo.py      (the demonstration; must run with `cd <tree> && /venv/bin/python demo.py` from the tree root, or say how)
   /tmp/wt/out/{pid}/{names[0]}/notes.md     (what the change is, why it breaks the property, what it needs in order to manifest,
                                       which tests you ran and their result)
   ... and the same under {'/, '.join(names[1:])}/.
Between changes, restore the worktree with `git -C {wt} checkout -- .` so that each patch is independent and applies to the clean
tree. Leave the worktree clean when you finish. Make the {n} changes different in kind (different function / different mechanism).
Never use `git stash` (the worktree shares its stash with other worktrees).
{("Other people already produced the following changes for this property - yours must be DIFFERENT in mechanism and location:" + chr(10) + chr(10).join("  - " + a for a in avoid)) if avoid else ""}
In your final answer, summarise each change in two or three sentences.""")
