#!/bin/sh
# tools/run_all.sh [quick|thorough] [ID ...]   run the checks one after the other; one summary line per property
TIER="${1:-quick}"; shift
cd "$(dirname "$0")/.."
IDS="$*"
[ -z "$IDS" ] && IDS=$(python3 -c "import json;print(' '.join(c['property_id'] for c in json.load(open('MANIFEST.json'))['checks']))")
for id in $IDS; do
  ./check "$id" "$TIER" > "/tmp/run_all_$id.log" 2>&1
  rc=$?
  echo "$id rc=$rc $(grep -E 'obligations discharged' /tmp/run_all_$id.log | tail -1) $(grep -c '^VIOLATION' /tmp/run_all_$id.log) violations $(grep -c '^KNOWN-FINDING' /tmp/run_all_$id.log) known $(grep -c 'HARNESS-ERROR' /tmp/run_all_$id.log) harness-errors"
done
