#!/usr/bin/env python3
"""Regenerate /verif/MANIFEST.json from the table below (single source of truth for the interface)."""
import json
import os

ROOT = os.path.dirname(os.path.dirname(os.path.abspath(__file__)))

TECH = "CrossHair 0.0.110 symbolic execution of the real redun functions, each path decided by z3 (bounded; see evidence)"

LAB = ("SchedLab (stub S6): the real Scheduler and in-memory SQLite backend run natively without threads under a controlled "
       "executor and event queue; the resource arithmetic (_is_job_within_limits/_consume/_release/_add_limits) and the monitors "
       "run symbolically with the limit and per-job demand as symbolic integers; workflow shape and completion schedule (late, "
       "early, and completion-arrives-during-an-event modes) are solver choice variables. ")

CLAIMED = {
    "C03": dict(
        text="(kernel) the real _get_call_node on the S4 session over symbolic call-node rows (unbounded task/argument tokens, distinct symbolic timestamps), solver-chosen call_subtree_task rows and registry: returns the newest matching node whose recorded task set is within the registry, else none. (histories) Every history (solver choice variables) of: run / edit inner, mid or outer task (new version) / revert / transfer all records to a fresh repository, on four workflow shapes (chain, middle task without provenance, a leaf shared by two parents, a non-leaf call shared by two shallow parents), executed with the real scheduler and file-backed SQLite under the controlled executor with a solver-chosen completion order; every task stamps its version into the result, so a stale shallow replay is visible in the returned value.",
        note="<= 4-5 steps. One listed known finding (imported call nodes lack subtree rows) is assumed away and witnessed; one defect (subtree tasks of deduplicated jobs) was fixed. Interrupted recordings are not covered (cf. C22).",
        design="3/C03",
        technique=TECH + "; edit/run/transfer histories as solver choice variables, executed natively on the real backend"),
    "C04": dict(
        text="The real Scheduler._get_cache (validity branch) is run on cached results that contain one external value of a solver-chosen class (File, ContentFile, IFile, Dir, ContentDir, FileSet) in a solver-chosen position (bare, list, dict, nested, positional/keyword argument of a returned task expression) after a solver-chosen file-system change, and must report a miss - without raising - exactly when an independent observation of the file system says the value changed; whole re-executions through the real scheduler must re-run the producing task iff its output became invalid and return a result reflecting the current state.",
        note="Local temp directory; Handle validity is checked under C25 on the same path; one listed known finding (ContentDir hashes members by stat) assumed away and witnessed; one defect (ContentFile on a missing path raised) fixed.",
        design="3/C04-C30",
        technique=TECH + "; value class / position / file-system change as solver choice variables, executed natively; OS-level oracle"),
    "C05": dict(
        text="(kernel) the real check_cache / _get_call_node context filter on the S4 session over symbolic call nodes, jobs and tags (unbounded tokens): a CSE or ULTIMATE hit carries exactly the requested context. (histories) Histories of up to 3 calls of the same task and arguments under solver-chosen contexts (none/A/B), with three ways of depending on the context (nested child, defaulted get_context argument, defaulted argument that is a task call), arranged in parallel, sequentially in one execution or in successive executions, with full or shallow validity and with or without an execution-level context, run on the real scheduler and SQLite backend: every call must return the value of its own context.",
        note="One listed known finding (a context-free call after a finished context-bearing call reuses its result) is assumed away exactly and witnessed.",
        design="3/C05",
        technique=TECH + "; call histories as solver choice variables, executed natively on the real scheduler/backend"),
    "C06": dict(
        text="%sAsserted per run: every (task, eval hash, context hash) reaches the executor at most once unless opted out, twins get the same result/error, equal expressions under one parent create one job, the outcome is the prescribed one; with the backend cache and with cache=False." % LAB,
        note="Templates: main -> <= 3-4 branches mid -> leaf with duplicates, shared non-leaf calls, failing/caught leaves, a leaf demanding the whole limit, optional catch_all / unknown-executor branch; plus the reuse template (stock executors): one call of a plain / cache_scope NONE / async task used in a catch and reached again later as the same expression or an equal call. Real thread/process executors under load and prov=False jobs are outside.",
        design="3/C08-C09-C06-C07-C12",
        technique=TECH + "; scheduler run natively under a controlled executor/queue with symbolic limits and solver-chosen schedules"),
    "C07": dict(
        text="%sEach run is compared with a reference run of the same program (fresh backend, strictly serial depth-first completions, ample resources): same returned value and the same sets of call-node, argument, value and handle hashes; a second template passes one Handle to parallel task chains under a limit." % LAB,
        note="Further templates: equal calls written as different expressions under one parent; one Handle passed to sibling steps with lazy second arguments. Three listed known findings are assumed away exactly (duplicate *failing* calls; values containing one shared result object several times; handle fork keys following readiness order) and witnessed; one defect (handle forked again after waiting for limits) was fixed.",
        design="3/C08-C09-C06-C07-C12",
        technique=TECH + "; differential against a serial reference run; scheduler run natively with symbolic limits and solver-chosen schedules"),
    "C08": dict(
        text="%sAsserted at every submission, event and at the end: units held by submitted-and-unfinished jobs <= limit (1 if unconfigured), the scheduler's account never below what is in flight, zero when the run ends." % LAB,
        note="Same templates as C06 plus a two-resource template (leaves demanding solver-chosen combinations of a and b, both limits symbolic); limit >= 1 symbolic, demand 1 <= count <= limit symbolic, list and dict demand forms, unconfigured limit.",
        design="3/C08-C09-C06-C07-C12",
        technique=TECH + "; scheduler run natively under a controlled executor/queue with symbolic limits and solver-chosen schedules"),
    "C09": dict(
        text="%sAsserted: the run never reaches 'queue empty, nothing in flight, workflow pending', returns the prescribed value or raises an admissible error, and leaves nothing in flight / waiting for limits / pending / unfinalized." % LAB,
        note="Same templates as C06/C08; every task function terminates, demand <= limit.",
        design="3/C08-C09-C06-C07-C12",
        technique=TECH + "; scheduler run natively under a controlled executor/queue with symbolic limits and solver-chosen schedules"),
    "C11": dict(
        text="ThreadLab (stub S7): the real, unmodified JobArrayer methods run in two real threads (adder, monitor) that are serialised at every source line of job_array.py and at every bytecode instruction of the num_pending updates; the interleaving (bounded pre-emptions) is a vector of solver choice variables; asserted: every job handed off exactly once in a single-description batch of legal size, the monitor never fails, num_pending equals the number of jobs not yet handed off once activity stops.",
        note="Cooperative Lock/Event stand-ins, fake clock, JobArrayer.start neutralised; <= 4-5 jobs, <= 2-3 pre-emptions; one adder thread.",
        design="3/C11",
        technique=TECH + "; thread interleavings of the real code (line/opcode granularity via sys.settrace gating) as solver choice variables"),
    "C12": dict(
        text="%sAsserted: an uncaught failure makes run raise the same exception type and message, the failing job and each ancestor are recorded FAILED with an ErrorValue, a second execution submits the failed call again; plus solver-chosen histories of executions of one call whose body succeeds/fails with the cache on/off, and the real _get_cache on solver-chosen (result kind, cache type) pairs." % LAB,
        note="Errors: an ordinary exception and one carrying an unpicklable attribute; <= 3-4 executions per history; plus the reuse template (stock executors): a failing call handled once by catch and reached again later, caught or uncaught. One listed known finding (a repeated identical failure keeps the old call-node timestamp, so a later shallow lookup replays an intermediate success) is assumed away exactly and witnessed; outcomes of CAUGHT failures whose exception cannot be pickled are accepted (not C12's subject).",
        design="3/C08-C09-C06-C07-C12",
        technique=TECH + "; scheduler run natively with symbolic limits and solver-chosen schedules; execution histories as solver choice variables"),
    "C13": dict(
        text="Bounded model checking by symbolic execution: the real Promise class is run on every operation sequence of "
             "the stated length (operation choice = solver variables) and compared with a reference model of the "
             "statement; Promise.all / wait_promises on every input-kind vector and settle order up to n inputs.",
        note="Bounds: 3-4 steps (quick) / 4-5 steps (thorough), <= 3-4 inputs. Single-threaded use. One listed known "
             "finding (re-entrant registration order) is assumed away and witnessed concretely.",
        design="3/C13",
        technique=TECH + "; operation sequences as lazily created solver choice variables; reference-model oracle"),
    "C14": dict(
        text="The real bencode / bdecode are executed symbolically (pure-Python BytesIO stub) on structures whose skeleton is "
             "one of 22 listed shapes and whose leaves (ints, byte strings, unicode strings, dict keys) are symbolic: "
             "bdecode(bencode(x)) equals x up to the allowed identifications (a left inverse, hence injectivity within the "
             "bounds), pairs of small structures are compared directly, key order is permuted, non-encodable values are rejected.",
        note="Stub S1 (BytesIO), differentially tested each run. Leaves: |int| <= 12 (quick; dict shapes <= 1-2), strings <= 2 "
             "characters < U+0100, dict keys <= 1 ASCII character, depth <= 2.",
        design="3/C14",
        technique=TECH + "; skeleton chosen by solver variables, symbolic leaves, left-inverse (round-trip) argument for injectivity"),
    "C15": dict(
        text="The real hash_args_eval / get_arg_defaults / hash_eval are executed symbolically on two calls of each "
             "signature template with symbolic integer value tokens; z3 decides, for every pair of call forms and every "
             "coincidence pattern of arguments, that equal keys imply equal non-config bindings and that the four listed "
             "invariances hold. Leading type tags are re-extracted from the AST and checked Distinct with z3.",
        note="Stubs S2 (structural hash: SHA collision-freedom, bencode injectivity = C14) and S3 (value tokens). "
             "26 signature/config templates, <= 5 positional and <= 2 keyword arguments.",
        design="3/C15",
        technique=TECH + "; hash pre-images kept structural, argument hashes as symbolic integer tokens"),
    "C17": dict(
        text="Task._calc_hash / PartialTask._calc_hash executed symbolically on two task objects that differ in one solver-chosen "
             "dimension (name, namespace, source, version, include value/order, call-time override, definition option) with "
             "symbolic strings and tokens; get_func_source on symbolic source lines (decorators, def/async def, indentation); and, "
             "natively with real inspect and SHA, solver-chosen sequences of source edits to a module on disk (incl. wrapped "
             "tasks and hash_includes helpers) and of PartialTask derivations.",
        note="Stubs S2/S3 + structural type registry for the symbolic part; strings <= 2 chars; <= 2-3 edits / 3-4 partial operations.",
        design="3/C17",
        technique=TECH + "; one-dimension-differs pairs with symbolic fields; edit sequences as solver choice variables"),
    "C18": dict(
        text="The four expression classes' _calc_hash and __getstate__/__setstate__ executed symbolically on pairs of expressions "
             "whose kind, name, argument count, option set and export set are solver variables and whose argument/option values "
             "are symbolic tokens: equal hash => same call; state round trip preserves hash, arguments, options and resets "
             "bookkeeping; plus real-pickle round trips.",
        note="Stubs S2/S3, pickle_dumps/hash_bytes inside redun.expression replaced by an order-preserving structural image.",
        design="3/C18",
        technique=TECH + "; expression shapes as solver choice variables, symbolic value tokens"),
    "C19": dict(
        text="map_nested_value / iter_nested_value / iter_nested_value_children are run on every nested value whose node kinds "
             "(12 container/leaf kinds incl. namedtuple, set, dict keys, dataclass with non-init field, frozen dataclass, list "
             "subclass) are chosen by solver variables up to depth 2-3, and compared with a reference written from the statement: "
             "same types and shape, every leaf replaced, leaves visited == leaves the iterator yields.",
        note="Depth <= 2 (quick) / 3 (thorough), width 2; leaves are ints (set/dict-key leaves take one of two solver-chosen "
             "values). The scheduler-level consequence is outside (C01).",
        design="3/C19",
        technique=TECH + "; value skeletons as lazily created solver choice variables, reference-model oracle"),
    "C24": dict(
        text="Every history of tag commands up to the bound - command vector = solver choice variables over all distinct "
             "add / update / rm-pair / rm-key / two-pair add / mixed rm commands on two entities - is run through the real "
             "record_tags / delete_tags / get_tags on the real in-memory SQLite backend and compared after every command with the "
             "key-value model of the statement; the tag_edit graph is checked acyclic and superseded tags non-current.",
        note="<= 3 commands (quick) / 4 (thorough); keys {k,l}, values {0,1,'x',null}. One listed known finding (an add of a pair "
             "that is current through an update-created tag duplicates it) is tolerated exactly and witnessed.",
        design="3/C24",
        technique=TECH + "; command histories as solver choice variables, executed natively on the real backend; model oracle"),
    "C25": dict(
        text="(kernel, inductive step) from an ARBITRARY handle graph of 4 states on the S4 session (any DAG, symbolic validity bits, other-name states) satisfying 'derived from invalid => invalid', the real rollback_handle invalidates exactly the strict descendants of the target. (histories) Every history of handle operations up to the bound (fork, apply call, merge, rollback, rollback through the scheduler with the handle direct / nested in arguments, re-derivation with the same or a fresh object; operands solver-chosen) is run on the real advance_handle / rollback_handle / is_valid_handle of the in-memory SQLite backend and compared after every step with the lineage model; finally the real _get_cache must replay a cached result containing a state iff the model says the state is valid.",
        note="<= 4 (quick) / 5 (thorough) operations on one handle name; kernel: 4 states; workflow histories: 3-4 executions of a handle-advancing task under solver-chosen code versions, cached or with cache=False. One listed known finding (backend-level operations applied to an INVALID state leave / ignore an inconsistent lineage) is assumed away exactly and witnessed.",
        design="3/C25",
        technique=TECH + "; operation histories as solver choice variables, executed natively on the real backend; lineage-model oracle"),
    "C26": dict(
        text="merge_dicts, get_context_value, Job.get_context on chains of real Job objects, Task.update_context and the root "
             "merge of Scheduler.run are executed on contexts drawn by solver variables from a menu of 11 value shapes; the "
             "oracle is the left fold of the documented two-way deep merge and a direct path lookup.",
        note="<= 4 merged dicts, <= 3 jobs, <= 3 successive runs; expression-valued context entries are outside.",
        design="3/C26",
        technique=TECH + "; context shapes as solver choice variables; concrete blocks run natively on the real code"),
    "C27": dict(
        text="Real Task / TaskExpression / Job objects: for every assignment of one option to the four levels (definition, "
             "ancestor export, call time, scheduler-imposed) along job chains of depth <= 3 (presence bits = solver variables) the "
             "effective value, the accumulated exported names and the exported values are compared with the documented "
             "precedence; a second chain built from the same registered tasks must be unaffected; option values that contain "
             "expressions (top level or nested) are checked to be evaluated before the job runs, in a real Scheduler.run.",
        note="One option key; chains <= 3; expression shapes from a menu of 5.",
        design="3/C27",
        technique=TECH + "; level-presence bits as solver choice variables; concrete blocks run natively on the real code"),
    "C29": dict(
        text="get_command_eof / get_wrapped_command / prepare_command executed symbolically on command strings (all strings up "
             "to a length over an alphabet, and all line sequences from a menu of tricky lines); a reference here-document reader "
             "(checked against /bin/sh in every run) must return the command byte for byte; postprocess_script and script()'s "
             "assembly of cd / stage / command / unstage are checked on solver-chosen input and output shapes.",
        note="Strings <= 4 (quick) / prefixes up to 9 chars (thorough); <= 3-4 lines; local paths only; the script is not executed.",
        design="3/C29",
        technique=TECH + "; symbolic command strings partitioned by length/prefix; line and shape menus as solver choice variables"),
    "C30": dict(
        text="Sequences (solver choice variables) of write / append / remove / touch / same-size-same-mtime rewrite / copy / recreate / replace-directory-by-file operations on a real temporary directory; after every step, for recorded File, ContentFile, IFile, Dir, ContentDir, IDir and FileSet values: hashing never raises and is deterministic, is_valid() equals an independent OS-level observation (stat for stat-hashed, bytes for content-hashed, always for immutable), and the value used for the write carries the fresh hash.",
        note="Local POSIX file system only; <= 3-4 operations; ContentDir finding listed (hashes members by stat); ContentFile missing-path defect fixed.",
        design="3/C04-C30",
        technique=TECH + "; file-system operation sequences as solver choice variables, executed natively; OS-level oracle"),
    "C33": dict(
        text="The real CallGraphQuery.filter_job_statuses / filter_execution_statuses / build (joins and status terms) are run on "
             "a FakeSession that evaluates the SQLAlchemy clause objects they assemble, with SQL three-valued logic, over a "
             "symbolic job row (symbolic end_time, cached flag, result-type string) and its optional call node / value rows, "
             "optionally with a second job in the execution; returned <=> Job.calc_status / Execution.calc_status on the same row "
             "equals the filtered status.",
        note="Row domain restricted to what the recorder writes (witnessed each run on a recorded workflow, where FakeSession is "
             "also compared with real SQLite).",
        design="3/C33",
        technique=TECH + "; SQL clause objects interpreted over symbolic rows (FakeSession stub S4)"),
    "C34": dict(
        text="format_tag_value / parse_tag_value executed symbolically on symbolic strings (all strings up to a length over "
             "stated alphabets), ints, literals and depth-1 lists/dicts; round trip and type preservation asserted.",
        note="Bounds on string length/alphabet; CrossHair's models of re/json/int()/float() are trusted but every "
             "counterexample and one solver-chosen input per confirmed slice are re-run on CPython.",
        design="3/C34",
        technique=TECH + "; symbolic strings partitioned by length / prefix / alphabet"),
    "C35": dict(
        text="Config(config_dict=...) -> get_config_dict -> Config round trip executed symbolically (real redun.config on "
             "CPython's pure-Python configparser) for every option value up to a length over the characters that steer "
             "interpolation, several dotted section layouts, with and without replace_config_dir.",
        note="get_config_dir and os.environ are fixed stubs; values <= 3 (quick) / 4 (thorough) characters over a 9-char alphabet.",
        design="3/C35",
        technique=TECH + "; symbolic option values through configparser's interpolation code"),
    "C37": dict(
        text="TaskRegistry.add/rename/get/task_hashes are run on every sequence of define / redefine-with-same-hash / rename / "
             "wrap / get-by-hash operations (solver-chosen, hash tokens from a 3-value domain so definitions can share a hash) "
             "with the count/name invariants asserted after every step; the real task and wraps_task decorators are run on "
             "every sequence of plain / wrapped / double-wrapped redefinitions.",
        note="<= 3-4 operations over two names; <= 3-4 redefinitions.",
        design="3/C37",
        technique=TECH + "; operation sequences as solver choice variables, invariant oracle"),
}

NOT_APPLICABLE = {
    "C01": "whole generated workflows run in thread/process/async executors; values are pickled and hashed in C so no input stays symbolic - the solver could only enumerate concrete runs",
    "C02": "histories of whole executions with code edits against a shared SQLite backend; no symbolic datum survives a run (its kernels are claimed under C15/C17/C03/C05/C12)",
    "C10": "real monitor threads plus five cloud/container client stacks; CrossHair is per-thread and each API would need a hand-written fake",
    "C16": "about pickle output across interpreter processes and PYTHONHASHSEED values - C-level and environmental, outside any in-process encoding",
    "C20": "whole-database audit after real runs (Merkle recomputation over recorded bytes); the substance is which children/results the scheduler passes in during concrete runs",
    "C21": "upstream links come from bookkeeping the scheduler leaves on expressions during a real run; not reachable as a symbolic kernel",
    "C22": "process death / injected OperationalError at arbitrary backend writes; outcome decided by sqlite's journal, FK enforcement and SQLAlchemy identity-map behaviour, none of which the session model covers",
    "C23": "push/pull/export/import move serialized records between two SQLite files through the ORM and CLI; whole-database equality with no symbolic datum",
    "C28": "compares a dry run with a real run of the same whole program on the same backend state",
    "C31": "value-store offload is file I/O plus sqlite round trips keyed by sys.getsizeof of realised bytes",
    "C32": "the scratch-file protocol is pickle files, the oneshot CLI entry point and subprocess environment variables",
    "C36": "alembic migrations executing DDL/DML on populated SQLite files",
    "C38": "subrun launches a second scheduler inside an executor and re-imports modules",
}

PENDING = "solver-based check designed in DESIGN.md but not built yet in this round; not claimed until its check is committed"

ALL = ["C%02d" % i for i in range(1, 39)]


def main():
    checks = []
    for pid in ALL:
        if pid not in CLAIMED:
            continue
        c = CLAIMED[pid]
        checks.append({
            "property_id": pid,
            "quick_cmd": "./check %s quick" % pid,
            "thorough_cmd": "./check %s thorough" % pid,
            "evidence_file": "evidence/%s.json" % pid,
            "replay_cmd_template": "./check --replay {path}",
            "engine": "crosshair-z3",
            "level_claimed": {"category": "model_checking", "text": c["text"], "design_ref": "DESIGN.md §" + c["design"]},
            "level_note": c["note"],
            "technique": c["technique"],
        })
    na = []
    for pid in ALL:
        if pid in CLAIMED:
            continue
        na.append({"property_id": pid, "reason": NOT_APPLICABLE.get(pid, PENDING)})
    manifest = {
        "version": 1,
        "setup_cmd": "./setup.sh",
        "hooks": {
            "guard": "REDUN_VERIF",
            "enable": "none needed: the checks observe the unmodified code through interposed stubs; ./check exports REDUN_VERIF=1 for uniformity",
            "baseline_off_cmd": "python3 tools/baseline.py /repo",
            "source_commits": [],
            "add_only": True,
        },
        "engines": [{
            "name": "crosshair-z3",
            "path": "vp/driver.py",
            "serves_properties": sorted(CLAIMED),
            "kind_free_text": "CrossHair 0.0.110 (symbolic execution of Python, z3 5.1.0 (z3-solver wheel) per path) driven through its API: "
                              "one worker process per condition x partition slice, vacuity twin per condition, concrete "
                              "replay of every counterexample on the real code",
        }],
        "checks": checks,
        "not_applicable": na,
        "notes": "Exit codes of ./check: 0 = no unlisted violation, 1 = VIOLATION (replayed on the real code), 3 = harness error. "
                 "Known findings: known_findings.json (status known -> KNOWN-FINDING line; status fixed -> suppresses nothing).",
    }
    with open(os.path.join(ROOT, "MANIFEST.json"), "w") as f:
        json.dump(manifest, f, indent=1)
    print("claimed:", sorted(CLAIMED), "n/a:", len(na))


if __name__ == "__main__":
    main()
