#!/usr/bin/env python3
"""Run the repository's pinned test suite (guard REDUN_VERIF unset) and compare with BASELINE.json's stable_pass.

usage: tools/baseline.py [repo_dir]      exit 0 iff every stable_pass test passed.
"""
import json, os, subprocess, sys, tempfile
import xml.etree.ElementTree as ET

repo = sys.argv[1] if len(sys.argv) > 1 else "/repo"
base = json.load(open("/root/.vp/BASELINE.json"))
fd, xml = tempfile.mkstemp(suffix=".xml"); os.close(fd)
env = dict(os.environ); env.pop("REDUN_VERIF", None)
cmd = ["/venv/bin/python", "-m", "pytest", "-ra", "-q", "-p", "no:cacheprovider", "--timeout=900",
       "--continue-on-collection-errors", "--junitxml=" + xml]
p = subprocess.run(cmd, cwd=repo, env=env, capture_output=True, text=True)
print(p.stdout.strip().splitlines()[-1] if p.stdout.strip() else p.stderr[-500:])
passed = set()
for tc in ET.parse(xml).getroot().iter("testcase"):
    bad = any(ch.tag in ("failure", "error", "skipped") for ch in tc)
    if not bad:
        passed.add("%s::%s" % (tc.get("classname"), tc.get("name")))
os.remove(xml)
missing = [t for t in base["stable_pass"] if t not in passed]
print("stable_pass: %d, passed now: %d, missing: %d" % (len(base["stable_pass"]), len(passed), len(missing)))
for t in missing[:40]:
    print("  NOT PASSING:", t)
sys.exit(1 if missing else 0)
