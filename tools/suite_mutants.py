#!/usr/bin/env python3
"""Run the pinned test suite against every seeded change (each in its own scratch worktree of /repo HEAD) and record the outcome
in seeded/<PID>/<name>/meta.json under "suite_with_patch".

usage: tools/suite_mutants.py [-j N] [--redo] [PID/name ...]
"""
import glob
import json
import os
import subprocess
import sys
import time
from multiprocessing.pool import ThreadPool

ROOT = os.path.dirname(os.path.dirname(os.path.abspath(__file__)))


def sh(cmd, cwd=None, timeout=5400):
    p = subprocess.run(cmd, shell=True, cwd=cwd, capture_output=True, text=True, timeout=timeout)
    return p.returncode, (p.stdout + p.stderr)


def one(d):
    pid, name = d.split("/")[-2:]
    meta_path = os.path.join(d, "meta.json")
    meta = json.load(open(meta_path)) if os.path.exists(meta_path) else {"property": pid, "name": name}
    wt = "/tmp/wt/suite-%s-%s" % (pid, name)
    sh("git -C /repo worktree remove --force %s" % wt)
    rc, out = sh("git -C /repo worktree add -q --detach %s HEAD" % wt)
    if rc != 0:
        return d, "worktree: " + out
    try:
        rca, outa = sh("git apply %s" % os.path.join(d, "patch.diff"), cwd=wt)
        if rca != 0:
            return d, "patch does not apply: " + outa[-300:]
        t = time.time()
        rcs, outs = sh("python3 %s/tools/baseline.py %s" % (ROOT, wt))
        head = sh("git -C /repo rev-parse --short HEAD")[1].strip()
        meta = json.load(open(meta_path)) if os.path.exists(meta_path) else meta  # re-read: eval_mutant may have written meanwhile
        meta["suite_with_patch"] = {"all_stable_pass_tests_pass": rcs == 0, "tail": outs[-600:], "wall_s": round(time.time() - t),
                                    "repo_head": head}
        json.dump(meta, open(meta_path, "w"), indent=1)
        return d, "suite ok" if rcs == 0 else "SUITE FAILS: " + outs[-600:]
    finally:
        sh("git -C /repo worktree remove --force %s" % wt)


def main():
    args = sys.argv[1:]
    j = 5
    if "-j" in args:
        j = int(args[args.index("-j") + 1])
        del args[args.index("-j"):args.index("-j") + 2]
    redo = "--redo" in args
    args = [a for a in args if a != "--redo"]
    dirs = [os.path.join(ROOT, "seeded", a) for a in args] or sorted(glob.glob(os.path.join(ROOT, "seeded", "*", "*")))
    todo = []
    for d in dirs:
        if not os.path.exists(os.path.join(d, "patch.diff")):
            continue
        mp = os.path.join(d, "meta.json")
        m = json.load(open(mp)) if os.path.exists(mp) else {}
        if not redo and (m.get("suite_with_patch") or {}).get("all_stable_pass_tests_pass"):
            continue
        todo.append(d)
    print("to run:", len(todo), flush=True)
    with ThreadPool(j) as pool:
        for d, res in pool.imap_unordered(one, todo):
            print(d.replace(ROOT + "/seeded/", ""), res, flush=True)


if __name__ == "__main__":
    main()
