#!/usr/bin/env python3
"""Confirm a seeded change and run the property's check against it.

usage: tools/eval_mutant.py <PID> <dir with patch.diff demo.py notes.md> <name> [--suite] [--tier quick|thorough] [--no-check]

 1. scratch worktree of /repo HEAD: demo must pass on the clean tree and fail with the patch applied;
 2. (--suite) the pinned test suite on the patched worktree must still pass every stable_pass test;
 3. the patch is applied to /repo, `./check <PID> <tier>` is run, the patch is undone;
 4. everything is recorded under /verif/seeded/<PID>/<name>/ (patch.diff, demo.py, notes.md, meta.json).
"""
import json
import os
import shutil
import subprocess
import sys
import time

ROOT = os.path.dirname(os.path.dirname(os.path.abspath(__file__)))


def sh(cmd, cwd=None, timeout=3600):
    p = subprocess.run(cmd, shell=True, cwd=cwd, capture_output=True, text=True, timeout=timeout)
    return p.returncode, (p.stdout + p.stderr)


def main():
    pid, src, name = sys.argv[1:4]
    opts = sys.argv[4:]
    tier = "quick"
    if "--tier" in opts:
        tier = opts[opts.index("--tier") + 1]
    dst = os.path.join(ROOT, "seeded", pid, name)
    os.makedirs(dst, exist_ok=True)
    for f in ("patch.diff", "demo.py", "notes.md"):
        if os.path.exists(os.path.join(src, f)) and os.path.abspath(src) != os.path.abspath(dst):
            shutil.copy(os.path.join(src, f), os.path.join(dst, f))
    meta_path = os.path.join(dst, "meta.json")
    meta = json.load(open(meta_path)) if os.path.exists(meta_path) else {}
    meta.update({"property": pid, "name": name})
    patch = os.path.join(dst, "patch.diff")

    wt = "/tmp/wt/eval-%s-%s" % (pid, name)
    sh("git -C /repo worktree remove --force %s" % wt)
    rc, out = sh("git -C /repo worktree add -q --detach %s HEAD" % wt)
    assert rc == 0, out
    try:
        shutil.copy(os.path.join(dst, "demo.py"), os.path.join(wt, "_demo_seeded.py"))
        rc0, out0 = sh("/venv/bin/python _demo_seeded.py", cwd=wt, timeout=900)
        rca, outa = sh("git apply %s" % patch, cwd=wt)
        assert rca == 0, "patch does not apply: " + outa
        rc1, out1 = sh("/venv/bin/python _demo_seeded.py", cwd=wt, timeout=900)
        meta["demo_on_clean_tree_exit"] = rc0
        meta["demo_with_patch_exit"] = rc1
        meta["demo_with_patch_tail"] = out1[-600:]
        meta["demo_confirmed"] = (rc0 == 0 and rc1 != 0)
        os.remove(os.path.join(wt, "_demo_seeded.py"))
        if "--suite" in opts:
            t = time.time()
            rcs, outs = sh("python3 %s/tools/baseline.py %s" % (ROOT, wt), timeout=3600)
            meta["suite_with_patch"] = {"all_stable_pass_tests_pass": rcs == 0, "tail": outs[-800:], "wall_s": round(time.time() - t)}
    finally:
        sh("git -C /repo worktree remove --force %s" % wt)

    if "--no-check" not in opts:
        t = time.time()
        rc, out = sh("%s/tools/try_patch.sh %s %s %s" % (ROOT, patch, pid, tier), timeout=4 * 3600)
        lines = [l for l in out.splitlines() if l.startswith("VIOLATION") or l.startswith("KNOWN-FINDING") or "obligations discharged" in l
                 or l.startswith("HARNESS-ERROR") or l.startswith("exit=")]
        meta.setdefault("checks", {})[tier] = {
            "cmd": "./check %s %s (patch applied to /repo with git apply, undone afterwards)" % (pid, tier),
            "detected": any(l.startswith("VIOLATION property=%s" % pid) for l in lines),
            "output": [l[:400] for l in lines][:12],
            "wall_s": round(time.time() - t),
        }
    json.dump(meta, open(meta_path, "w"), indent=1)
    print(json.dumps({k: meta[k] for k in meta if k not in ("demo_with_patch_tail",)}, indent=1)[:3000])


if __name__ == "__main__":
    main()
