#!/bin/sh
# tools/revert_matrix.sh   for every `fixed` entry of known_findings.json: reverse-apply the fix commit to /repo's working tree,
# run the property's quick check (must print a VIOLATION line), restore the tree.  One summary line per entry.
cd "$(dirname "$0")/.."
python3 - <<'PY' > /tmp/revert_list.txt
import json
k = json.load(open("known_findings.json"))
seen = set()
for e in k["findings"]:
    if e.get("status") == "fixed" and (e["property"], e["commit"]) not in seen:
        seen.add((e["property"], e["commit"]))
        print(e["property"], e["commit"])
PY
while read pid commit; do
  out=$(tools/try_patch.sh "-R$commit" "$pid" quick 2>&1)
  n=$(printf '%s\n' "$out" | grep -c "^VIOLATION property=$pid")
  rc=$(printf '%s\n' "$out" | grep '^exit=' | tail -1)
  echo "$pid $commit reverted: $n VIOLATION lines, $rc $(printf '%s\n' "$out" | grep -E 'refusing|error:' | head -2 | tr '\n' ' ')"
done < /tmp/revert_list.txt
