#!/bin/sh
# tools/try_patch.sh <patch.diff | -R<commit>> <PID> [tier]   apply a change to /repo, run one check, undo the change.
P="$1"; shift
cd /repo || exit 2
if [ -n "$(git status --porcelain --untracked-files=no)" ]; then echo "/repo has local modifications; refusing"; exit 2; fi
case "$P" in
  -R*) git diff "${P#-R}^" "${P#-R}" | git apply -R || exit 2 ;;
  *) git apply "$P" || exit 2 ;;
esac
trap 'git -C /repo checkout -- . ' EXIT INT TERM
cd /verif && ./check "$@"
echo "exit=$?"
