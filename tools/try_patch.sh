#!/bin/sh
# tools/try_patch.sh <patch.diff | -R<commit>> <PID> [tier]   apply a change to /repo, run one check, undo the change.
P="$1"; shift
cd /repo || exit 2
if [ -n "$(git status --porcelain --untracked-files=no)" ]; then echo "/repo has local modifications; refusing"; exit 2; fi
case "$P" in
  -R*) git diff "${P#-R}^" "${P#-R}" | git apply -R || exit 2 ;;
  *) git apply "$P" || exit 2 ;;
esac
trap 'git -C /repo checkout -- . ' EXIT INT TERM
# the evidence file of the property describes the unchanged tree: keep it aside while the check runs on the changed tree
EV="/verif/evidence/$1.json"
[ -f "$EV" ] && cp "$EV" "$EV.keep"
cd /verif && ./check "$@"
echo "exit=$?"
[ -f "$EV.keep" ] && mv "$EV.keep" "$EV"
