import redun.hashing as H
import importlib; T = importlib.import_module("redun.task")
from redun import task
from redun.value import Value, get_type_registry

def freeze(x):
    if isinstance(x, (list, tuple)):
        return tuple(freeze(i) for i in x)
    if isinstance(x, dict):
        return ("<dict>",) + tuple((k, freeze(x[k])) for k in sorted(x))
    return x
# hash_struct := identity on the canonical structure (assumes C14 + collision-free SHA-512/160)
H.hash_struct = freeze
T.hash_struct = freeze

class SymArg(Value):
    def __init__(self, h):
        self.h = h
    def get_hash(self, data=None):
        return self.h

redun_namespace = "probe"

@task(config_args=["c"])
def t1(a, b, c=0, *rest, k=1):
    return 0

def evalkey_sep(a1: int, b1: int, c1: int, r1: int, a2: int, b2: int, c2: int, r2: int) -> bool:
    """
    post: _
    """
    reg = get_type_registry()
    e1, _ = T.hash_args_eval(reg, t1, (SymArg(a1), SymArg(b1), SymArg(c1), SymArg(r1)), {})
    e2, _ = T.hash_args_eval(reg, t1, (SymArg(a2), SymArg(b2), SymArg(c2), SymArg(r2)), {})
    same_noncfg = (a1 == a2 and b1 == b2 and r1 == r2)
    return (e1 == e2) == same_noncfg

@task(config_args=["k"])
def t2(a, *rest, k=1):
    return 0

def evalkey_var(a1: int, x1: int, y1: int, a2: int, x2: int, y2: int) -> bool:
    """
    post: _
    """
    reg = get_type_registry()
    e1, _ = T.hash_args_eval(reg, t2, (SymArg(a1), SymArg(x1), SymArg(y1)), {})
    e2, _ = T.hash_args_eval(reg, t2, (SymArg(a2), SymArg(x2), SymArg(y2)), {})
    same = (a1 == a2 and x1 == x2 and y1 == y2)
    return (e1 == e2) == same
