import logging; logging.disable(logging.CRITICAL)
from redun import Scheduler, task
from redun.context import get_context
from redun.functools import seq
redun_namespace = "probe05"

@task()
def g():
    return get_context("x", "none")
@task()
def with_ctx():
    return g()
@task()
def without_ctx():
    return g()
@task()
def main():
    # context-bearing call first, then the context-free call after it has finished.
    return seq([with_ctx.update_context({"x": "ctx"})(), without_ctx()])

s = Scheduler(); s.load()
print("same execution :", s.run(main()), " expected ['ctx', 'none']")
s2 = Scheduler(); s2.load()
print("fresh, ctx-free :", s2.run(without_ctx()))
# across executions with shallow checking
@task(check_valid="shallow")
def g2():
    return get_context("x", "none")
@task()
def with_ctx2():
    return g2()
s3 = Scheduler(); s3.load()
print("exec1 ctx      :", s3.run(with_ctx2.update_context({"x": "ctx"})()))
print("exec2 no ctx   :", s3.run(g2()), " expected 'none'")
