import logging; logging.disable(logging.CRITICAL)
from redun import Scheduler, task
from redun.backends.db import RedunBackendDb, CallSubtreeTask
redun_namespace = "probe03"
calls = []
def define(version):
    @task(version=version)
    def inner(x):
        calls.append(("inner", version))
        return f"{x}-v{version}"
    @task(check_valid="shallow")
    def outer(x):
        return inner(x)
    return outer

outer = define("1")
src = Scheduler(); src.load()
print("src run v1:", src.run(outer(1)))
# transfer all records to a fresh repo
dst = Scheduler(); dst.load()
ids = list(src.backend.iter_record_ids([e.id for e in src.backend.session.query(__import__("redun.backends.db", fromlist=["Execution"]).Execution).all()]))
n = dst.backend.put_records(src.backend.get_records(ids))
print("transferred", n, "records; subtree rows in dst:", dst.backend.session.query(CallSubtreeTask).count(), "src:", src.backend.session.query(CallSubtreeTask).count())
# edit inner
outer = define("2")
print("src run v2:", src.run(outer(1)), "(expected 1-v2)")
print("dst run v2:", dst.run(outer(1)), "(expected 1-v2)")
