import redun.bcoding as bc

class PyBytesIO:
    """Pure-python write-only/readable buffer so symbolic bytes are not realized at the C boundary."""
    def __init__(self, data=b""):
        self.data = data
        self.pos = 0
    def write(self, b):
        self.data = self.data + b
    def getvalue(self):
        return self.data
    def seekable(self):
        return True
    def read(self, n):
        r = self.data[self.pos:self.pos+n]
        self.pos += len(r)
        return r
    def seek(self, off, whence=0):
        if whence == 1:
            self.pos += off
        else:
            self.pos = off

bc.BytesIO = PyBytesIO

def bad(x: int) -> bool:
    """
    post: _
    """
    return bc.bencode(x) != b"i12345e"

def bad2(s: bytes) -> bool:
    """
    pre: len(s) <= 4
    post: _
    """
    return bc.bencode(s) != b"2:ab"

def rt_int(x: int) -> bool:
    """
    post: _
    """
    return bc.bdecode(bc.bencode(x)) == x

def rt_bytes(s: bytes) -> bool:
    """
    pre: len(s) <= 3
    post: _
    """
    r = bc.bdecode(bc.bencode(s))
    if isinstance(r, str):
        r = r.encode()
    return r == s

def rt_int_small(x: int) -> bool:
    """
    pre: -120 <= x <= 1200
    post: _
    """
    return bc.bdecode(bc.bencode(x)) == x

from typing import List, Dict, Union, Tuple

def inj_pair(a: bytes, b: bytes, c: bytes, d: bytes) -> bool:
    """
    pre: len(a) <= 2 and len(b) <= 2 and len(c) <= 2 and len(d) <= 2
    post: _
    """
    if bc.bencode([a, b]) == bc.bencode([c, d]):
        return a == c and b == d
    return True

def inj_mixed(x: int, a: bytes, b: bytes) -> bool:
    """
    pre: len(a) <= 3 and len(b) <= 3
    post: _
    """
    # list [x, a] vs bytes b vs dict
    e1 = bc.bencode([x, a])
    e2 = bc.bencode(b)
    e3 = bc.bencode({a: x})
    return e1 != e2 and e1 != e3 and e2 != e3

def dict_order(k1: str, k2: str, v1: int, v2: int) -> bool:
    """
    pre: len(k1) <= 2 and len(k2) <= 2 and k1 != k2
    post: _
    """
    return bc.bencode({k1: v1, k2: v2}) == bc.bencode({k2: v2, k1: v1})

def rt_dict(k1: str, v1: int, s: str) -> bool:
    """
    pre: len(k1) <= 2 and len(s) <= 2 and 0 <= v1 < 10
    post: _
    """
    d = {k1: [v1, s]}
    return bc.bdecode(bc.bencode(d)) == d
