import logging
from redun import Scheduler, task
from redun.executors.base import Executor
from crosshair.tracers import NoTracing, ResumedTracing

logging.disable(logging.CRITICAL)
redun_namespace = "probe2"

class Deadlock(Exception):
    pass

class CtlQueue:
    def __init__(self, sched, executor, choices):
        self.q = []
        self.sched = sched
        self.ex = executor
        self.choices = choices
        self.ci = 0
    def put(self, f):
        self.q.append(f)
    def empty(self):
        return not self.q and not self.ex.inflight
    def get(self, timeout=None):
        if self.q:
            return self.q.pop(0)
        if not self.ex.inflight:
            raise Deadlock(len(self.sched._jobs_pending_limits))
        n = len(self.ex.inflight)
        c = self.choices[self.ci] if self.ci < len(self.choices) else 0
        self.ci += 1
        idx = n - 1
        for k in range(n - 1):
            if c == k:
                idx = k
                break
        job = self.ex.inflight.pop(idx)
        args, kwargs = job.args
        try:
            result = job.task.func(*args, **kwargs)
        except Exception as e:
            return lambda: self.sched._reject_job_main_thread(job, e)
        return lambda: self.sched._done_job_main_thread(job, result)

class CtlExecutor(Executor):
    def __init__(self, name):
        super().__init__(name)
        self.inflight = []
    def submit(self, job):
        self.inflight.append(job)
        held = 0
        for j in self.inflight:
            held = held + j.get_limits().get("r", 0)
        lim = self._scheduler.limits.get("r", 1)
        if held > lim:
            raise AssertionError("LIMIT EXCEEDED")

import redun.scheduler as RS
def traced(fn):
    def w(*a, **k):
        with ResumedTracing():
            return fn(*a, **k)
    w.__name__ = fn.__name__
    return w
for name in ["_is_job_within_limits", "_consume_resources", "_release_resources", "_add_limits"]:
    setattr(RS.Scheduler, name, traced(getattr(RS.Scheduler, name)))
CtlQueue.get = traced(CtlQueue.get)
CtlExecutor.submit = traced(CtlExecutor.submit)


@task()
def leaf(x):
    return x

@task()
def p(i, x):
    return leaf(x)

@task()
def main(xs):
    return [p(i, x) for i, x in enumerate(xs)]

def run(limit, count, xs, choices):
    ex = CtlExecutor("default")
    s = Scheduler(executor=ex)
    s.load()
    s.limits = {"r": limit}
    leaf._task_options_base["limits"] = {"r": count}
    s.job_status_interval = None
    s.events_queue = CtlQueue(s, ex, choices)
    try:
        r = s.run(main(xs))
    except Deadlock as d:
        return "DEADLOCK"
    with ResumedTracing():
        if s.limits_used["r"] != 0:
            return "LEAK"
    return r

def check(limit: int, count: int, c0: int, c1: int, c2: int) -> bool:
    """
    pre: 1 <= limit <= 2 and 1 <= count <= limit
    pre: 0 <= c0 <= 2 and 0 <= c1 <= 2 and 0 <= c2 <= 2
    post: _
    """
    with NoTracing():
        r = run(limit, count, [0, 1, 2], [c0, c1, c2])
        return r == [0, 1, 2]

def check_dup(limit: int, count: int, c0: int, c1: int, c2: int) -> bool:
    """
    pre: 1 <= limit <= 2 and 1 <= count <= limit
    pre: 0 <= c0 <= 2 and 0 <= c1 <= 2 and 0 <= c2 <= 2
    post: _
    """
    with NoTracing():
        r = run(limit, count, [0, 1, 1, 2], [c0, c1, c2])
        return r == [0, 1, 1, 2]

if __name__ == "__main__":
    import time
    t = time.time(); print(run(2, 1, [0, 1, 2], [1, 0, 0]), time.time() - t)
    t = time.time(); print(run(1, 1, [0, 1, 1, 2], [0, 0, 0]), time.time() - t)

