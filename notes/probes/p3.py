from typing import List, Dict, Tuple, Optional, Any
from redun.tags import parse_tag_value, format_tag_value
from redun.scripting import get_command_eof, get_wrapped_command, prepare_command
from redun.utils import merge_dicts, map_nested_value, iter_nested_value
from redun.context import get_context_value

def tag_rt_str(s: str) -> bool:
    """
    pre: len(s) <= 3
    post: _
    """
    return parse_tag_value(format_tag_value(s)) == s

def tag_rt_int(x: int) -> bool:
    """
    post: _
    """
    return parse_tag_value(format_tag_value(x)) == x

def eof_safe(cmd: str) -> bool:
    """
    pre: len(cmd) <= 9
    post: _
    """
    eof = get_command_eof(cmd)
    return eof not in cmd.split("\n") and eof.startswith("EOF")

def eof_bad(cmd: str) -> bool:
    """
    pre: len(cmd) <= 9
    post: _
    """
    # deliberately wrong: claims EOF is always chosen
    return get_command_eof(cmd) == "EOF"

def wrapped_embeds(cmd: str) -> bool:
    """
    pre: len(cmd) <= 6
    post: _
    """
    w = get_wrapped_command(cmd)
    eof = get_command_eof(cmd)
    lines = w.split("\n")
    start = lines.index('cat > "$COMMAND_FILE" <<"' + eof + '"')
    # reference heredoc reader: body is lines until first line equal to eof
    body = []
    i = start + 1
    while lines[i] != eof:
        body.append(lines[i]); i += 1
    return "\n".join(body) == cmd

def merge_assoc(a: Dict[str, int], b: Dict[str, int], c: Dict[str, int]) -> bool:
    """
    pre: len(a) <= 2 and len(b) <= 2 and len(c) <= 2
    post: _
    """
    return merge_dicts([a, b, c]) == {**a, **b, **c}

def ctx_path(d: Dict[str, Dict[str, int]], k1: str, k2: str, default: int) -> bool:
    """
    pre: len(d) <= 2 and "." not in k1 and "." not in k2 and len(k1) <= 2 and len(k2) <= 2
    post: _
    """
    got = get_context_value(d, k1 + "." + k2, default)
    exp = d[k1][k2] if k1 in d and k2 in d[k1] else default
    return got == exp
