from redun.config import Config

def cfg_rt(v: str) -> bool:
    """
    pre: len(v) <= 3 and "\n" not in v and "\r" not in v
    post: _
    """
    c1 = Config()
    try:
        c1.read_dict({"sec.sub": {"key": v}})
        eff = c1["sec"]["sub"]["key"]
    except Exception:
        return True   # not a valid config to start with
    d = c1.get_config_dict()
    c2 = Config(config_dict=d)
    return c2["sec"]["sub"]["key"] == eff
