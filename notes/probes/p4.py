from typing import List, Dict, Tuple, Optional, Any
import inspect
from redun.promise import Promise, wait_promises

def promise_ops(o0: int, o1: int, o2: int, o3: int, o4: int) -> bool:
    """
    pre: 0 <= o0 < 5 and 0 <= o1 < 5 and 0 <= o2 < 5 and 0 <= o3 < 5 and 0 <= o4 < 5
    post: _
    """
    p = Promise()
    calls = []
    nid = 0
    settled = None
    for op in (o0, o1, o2, o3, o4):
        if op == 0:
            p.do_resolve(1)
            if settled is None: settled = "ok"
        elif op == 1:
            p.do_reject(ValueError("e"))
            if settled is None: settled = "err"
        elif op == 2:
            i = nid; nid += 1
            p.then(lambda v, i=i: calls.append(("then", i)))
        elif op == 3:
            i = nid; nid += 1
            p.catch(lambda e, i=i: calls.append(("catch", i)))
        else:
            p.do_resolve(2)
            if settled is None: settled = "ok"
    ids = [i for _, i in calls]
    if len(ids) != len(set(ids)):
        return False
    if settled is None:
        return calls == []
    want = "then" if settled == "ok" else "catch"
    return all(k == want for k, _ in calls)

# ---------- C15 ----------
import redun.bcoding as bc
import redun.hashing as H
from redun import task
from redun.task import hash_args_eval
from redun.value import Value, get_type_registry

class PyBytesIO:
    def __init__(self, data=b""):
        self.data = data
    def write(self, b):
        self.data = self.data + b
    def getvalue(self):
        return self.data
bc.BytesIO = PyBytesIO

class IdHash:
    def __init__(self, length=40):
        self.parts = b""
    def update(self, data):
        self.parts = self.parts + data
    def hexdigest(self):
        return self.parts.decode("latin1")
H.Hash = IdHash

class SymArg(Value):
    def __init__(self, h):
        self.h = h
    def get_hash(self, data=None):
        return self.h

redun_namespace = "probe"

@task(config_args=["c"])
def t1(a, b, c=0, *rest, k=1):
    return 0

def evalkey_sep(a1: str, b1: str, c1: str, r1: str, a2: str, b2: str, c2: str, r2: str) -> bool:
    """
    pre: len(a1) == 2 and len(b1) == 2 and len(c1) == 2 and len(r1) == 2
    pre: len(a2) == 2 and len(b2) == 2 and len(c2) == 2 and len(r2) == 2
    post: _
    """
    reg = get_type_registry()
    e1, _ = hash_args_eval(reg, t1, (SymArg(a1), SymArg(b1), SymArg(c1), SymArg(r1)), {})
    e2, _ = hash_args_eval(reg, t1, (SymArg(a2), SymArg(b2), SymArg(c2), SymArg(r2)), {})
    same_noncfg = (a1 == a2 and b1 == b2 and r1 == r2)
    return (e1 == e2) == same_noncfg

@task(config_args=["k"])
def t2(a, *rest, k=1):
    return 0

def evalkey_var(a1: str, x1: str, y1: str, a2: str, x2: str, y2: str) -> bool:
    """
    pre: len(a1) == 2 and len(x1) == 2 and len(y1) == 2
    pre: len(a2) == 2 and len(x2) == 2 and len(y2) == 2
    post: _
    """
    reg = get_type_registry()
    e1, _ = hash_args_eval(reg, t2, (SymArg(a1), SymArg(x1), SymArg(y1)), {})
    e2, _ = hash_args_eval(reg, t2, (SymArg(a2), SymArg(x2), SymArg(y2)), {})
    same = (a1 == a2 and x1 == x2 and y1 == y2)
    return (e1 == e2) == same
