import logging, time, threading, sys, os
logging.disable(logging.CRITICAL)
from redun import Scheduler, task
from redun.config import Config
redun_namespace = "probe9"

@task(limits=["r"])
def leaf(x):
    time.sleep(0.5 if x == 0 else 0.05)
    return x

@task()
def p(i, x):
    return leaf(x)

@task()
def main():
    return [p(1, 0), p(2, 1), p(3, 1), p(4, 2)]

def watchdog():
    time.sleep(12)
    print("HANG: scheduler did not terminate within 12s")
    os._exit(3)
threading.Thread(target=watchdog, daemon=True).start()
s = Scheduler(config=Config({"limits": {"r": "1"}, "scheduler": {"job_status_interval": "0"}}))
s.load()
print(s.run(main()))
