import logging, os, tempfile; logging.disable(logging.CRITICAL)
from redun import Scheduler, task
from redun.file import ContentFile, File
redun_namespace = "probe4"
d = tempfile.mkdtemp()
@task()
def make(path: str, cls_name: str):
    cls = {"ContentFile": ContentFile, "File": File}[cls_name]
    f = cls(path)
    f.write("hello")
    return f
for cls_name in ["File", "ContentFile"]:
    p = os.path.join(d, cls_name + ".txt")
    s = Scheduler(); s.load()
    f = s.run(make(p, cls_name)); print(cls_name, "run1", f)
    os.remove(p)
    try:
        f = s.run(make(p, cls_name)); print(cls_name, "run2 after delete ok", f, os.path.exists(p))
    except Exception as e:
        print(cls_name, "run2 RAISES", type(e).__name__, e)
