"""Probe: cooperative-thread version of JobArrayer.add_job / monitor iteration (hand-written here;
the real design rewrites the module AST).  Yields mark CPython pre-emption points."""
from collections import defaultdict

class Arr:
    def __init__(self, mn, mx):
        self.min_array_size = mn; self.max_array_size = mx
        self.pending = defaultdict(list); self.pending_timestamps = {}
        self.lock = None; self.num_pending = 0; self.submitted = []; self.errors = []
        self.clock = 0
    def time(self):
        self.clock += 1
        return self.clock

def acquire(a, tid):
    while a.lock is not None:
        yield "blocked"
    a.lock = tid
def release(a):
    a.lock = None

def add_job(a, tid, descr, job):
    yield from acquire(a, tid)
    lst = a.pending[descr]; yield
    lst.append(job); yield
    t = a.time(); yield
    a.pending_timestamps[descr] = t
    a.num_pending += 1
    release(a)

def monitor_iter(a, tid, stale_time):
    try:
        currtime = a.time(); yield
        stales = []
        n0 = len(a.pending)
        for descr in list(a.pending.keys()) if False else a.pending:   # real code iterates dict directly
            ts = a.pending_timestamps[descr]
            if currtime - ts > stale_time:
                stales.append(descr)
            yield   # loop back-edge
            if len(a.pending) != n0:
                raise RuntimeError("dictionary changed size during iteration")
        for descr in stales:
            yield from acquire(a, tid)
            jobs = a.pending.pop(descr); yield
            ts = a.pending_timestamps.pop(descr); yield
            release(a)
            if len(jobs) > a.max_array_size:
                rem = jobs[a.max_array_size:]; jobs = jobs[:a.max_array_size]
                a.submitted.append(list(jobs)); yield
                yield from acquire(a, tid)
                a.pending[descr].extend(rem); yield
                a.pending_timestamps[descr] = ts
                release(a)
            elif len(jobs) < a.min_array_size:
                for j in jobs:
                    a.submitted.append([j]); yield
            else:
                a.submitted.append(list(jobs)); yield
            tmp = a.num_pending
            n = len(jobs); yield            # the call to len() sits between load and store
            a.num_pending = tmp - n
    except Exception as e:
        a.errors.append(e)

def run(sched, mn, mx):
    a = Arr(mn, mx)
    def adder():
        yield from add_job(a, 1, "d0", "j0")
        yield from add_job(a, 1, "d1", "j1")
        yield from add_job(a, 1, "d0", "j2")
    def monitor():
        yield from monitor_iter(a, 2, 0)
        yield from monitor_iter(a, 2, 0)
    threads = [adder(), monitor()]
    alive = [True, True]
    cur = 0; si = 0; preempt = 0
    steps = 0
    while any(alive):
        steps += 1
        if steps > 200: return "LIVELOCK"
        if not alive[cur]:
            cur = 1 - cur
        try:
            r = next(threads[cur])
        except StopIteration:
            alive[cur] = False
            continue
        # pre-emption decision
        if r == "blocked":
            cur = 1 - cur
        elif alive[1 - cur] and preempt < 2 and si < len(sched):
            c = sched[si]; si += 1
            if c == 1:
                preempt += 1; cur = 1 - cur
    # final monitor pass to flush
    for _ in monitor_iter(a, 2, -1): pass
    handed = sorted(j for b in a.submitted for j in b)
    if a.errors: return "MONITOR-ERROR " + type(a.errors[0]).__name__
    if handed != ["j0", "j1", "j2"]: return "LOST/DUP " + str(handed)
    if a.num_pending != 0: return "COUNT " + str(a.num_pending)
    for b in a.submitted:
        if not (len(b) <= a.max_array_size and (len(b) == 1 or len(b) >= a.min_array_size)):
            return "BATCH"
    return "OK"

def check(s0: int, s1: int, s2: int, s3: int, s4: int, s5: int, s6: int, s7: int, s8: int, s9: int, s10: int, s11: int, mn: int, mx: int) -> bool:
    """
    pre: all(0 <= s <= 1 for s in (s0, s1, s2, s3, s4, s5, s6, s7, s8, s9, s10, s11))
    pre: 2 <= mn <= mx <= 3
    post: _
    """
    return run([s0, s1, s2, s3, s4, s5, s6, s7, s8, s9, s10, s11], mn, mx) == "OK"

if __name__ == "__main__":
    print(run([0]*12, 2, 3))
