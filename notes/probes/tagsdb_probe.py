"""Probe: real record_tags/delete_tags/get_tags on a write-capable FakeSession with symbolic tag values."""
from contextlib import contextmanager
import importlib
import fakedb as F
import redun.backends.db as db
from redun.backends.db import RedunBackendDb, Tag, TagEdit
from redun.backends.base import TagEntity
H = importlib.import_module("redun.hashing")

def freeze(x):
    if isinstance(x, (list, tuple)):
        return tuple(freeze(i) for i in x)
    if isinstance(x, dict):
        return ("<dict>",) + tuple((k, freeze(x[k])) for k in sorted(x))
    return x
H.hash_struct = freeze
H.json_dumps = lambda v: v          # canonical+injective JSON rendering assumed
db.hash_tag = H.hash_tag

class WQuery(F.FakeQuery):
    def update(self, values, synchronize_session=None):
        for row in self._rows():
            for col, val in values.items():
                setattr(row, col.key, val)
    def one_or_none(self):
        r = self._rows(); assert len(r) <= 1; return r[0] if r else None

class WSession:
    def __init__(self):
        self.tables = {"tag": [], "tag_edit": []}
    def query(self, *entities):
        return WQuery(self, entities)
    def add(self, obj):
        t = obj.__table__
        for col in t.columns:
            if getattr(obj, col.key) is None and col.default is not None and col.default.is_scalar:
                setattr(obj, col.key, col.default.arg)
        self.tables[t.name].append(obj)
    def add_all(self, objs):
        for o in objs: self.add(o)
    def commit(self): pass
    def rollback(self): pass

class FB:
    record_tags = RedunBackendDb.record_tags
    delete_tags = RedunBackendDb.delete_tags
    update_tags = RedunBackendDb.update_tags
    get_tags = RedunBackendDb.get_tags
    def __init__(self):
        self.session = WSession(); self._db_retries = 0
    @contextmanager
    def _acquire(self): yield

def cur(b):
    m = b.get_tags(["e"]).get("e")
    return sorted(m.items()) if m else []

def hist(o0: int, o1: int, o2: int, v0: int, v1: int, v2: int) -> bool:
    """
    pre: 0 <= o0 <= 2 and 0 <= o1 <= 2 and 0 <= o2 <= 2
    post: _
    """
    b = FB()
    model = []   # list of (key, value) current pairs (multiset)
    for op, v in ((o0, v0), (o1, v1), (o2, v2)):
        if op == 0:      # tag add k=v
            b.record_tags(TagEntity.Job, "e", [("k", v)], new=True)
            if ("k", v) not in model: model.append(("k", v))
        elif op == 1:    # tag update k=v
            b.record_tags(TagEntity.Job, "e", [("k", v)], update=True)
            model = [p for p in model if p[0] != "k"] + [("k", v)]
        else:            # tag rm k=v
            b.delete_tags("e", [("k", v)])
            model = [p for p in model if p != ("k", v)]
    return cur(b) == sorted(model)

hist(0, 1, 2, 5, 6, 6); hist(0, 2, 0, 1, 1, 1); hist(1, 1, 0, 1, 2, 1)
if __name__ == "__main__":
    print(hist(0, 1, 2, 5, 6, 6), hist(0, 2, 0, 1, 1, 1), hist(0, 0, 2, 1, 2, 1), hist(1, 1, 0, 1, 2, 1))
