import sys, time, importlib
import z3
from crosshair.core_and_libs import analyze_function, run_checkables, AnalysisKind, MessageType
from crosshair.options import AnalysisOptionSet
import collections
from crosshair.options import DEFAULT_OPTIONS
import crosshair.fnutil as fu, crosshair.condition_parser as cp, crosshair.enforce as enf
from crosshair import auditwall
_orig = fu.fn_globals
def fn_globals(fn):
    try:
        return _orig(fn)
    except ValueError:
        return getattr(fn, "__globals__", {})
fu.fn_globals = fn_globals

nchecks = [0, 0.0]
_oc = z3.Solver.check
def chk(self, *a):
    t = time.perf_counter()
    r = _oc(self, *a)
    nchecks[0] += 1; nchecks[1] += time.perf_counter() - t
    return r
z3.Solver.check = chk

modname, fname, tmo, ptmo = sys.argv[1], sys.argv[2], float(sys.argv[3]), float(sys.argv[4])
mod = importlib.import_module(modname)
fn = getattr(mod, fname)
opts = AnalysisOptionSet(per_condition_timeout=tmo, per_path_timeout=ptmo, analysis_kind=[AnalysisKind.PEP316], report_all=True, stats=collections.Counter())
auditwall.disable_auditwall() if hasattr(auditwall, "disable_auditwall") else None
t = time.time()
checkables = analyze_function(fn, opts)
for c in checkables:
    msgs = c.analyze() if hasattr(c, "analyze") else []
    msgs = list(msgs)
    for m in msgs:
        print(m.state, m.message[:300]); print(m.traceback[-3000:])
    if hasattr(c, "options"):
        print("stats", dict(c.options.stats) if c.options.stats else None)
print("wall", time.time() - t, "z3 checks", nchecks)
