import logging; logging.disable(logging.CRITICAL)
from redun import Scheduler, task
redun_namespace = "probe"
calls = []
@task(config_args=["k"])
def t2(a, *rest, k=1):
    calls.append((a, rest, k))
    return sum(rest) + a
s = Scheduler(); s.load()
print(s.run(t2(1, 2, 3)))
print(s.run(t2(1, 2, 4)), "expected 7")
print(calls)
