import logging; logging.disable(logging.CRITICAL)
from redun import Scheduler, task
from redun.scheduler import catch_all
from redun.context import get_context
from redun.backends.db.query import CallGraphQuery
from redun.backends.db import Job as DBJob
redun_namespace = "probe33"

@task()
def boom(x):
    raise ValueError("boom")
@task()
def a(): return boom(1)
@task()
def b(): return boom(1)
@task()
def rec(v): return "recovered"
@task()
def main():
    return catch_all([a(), b()], ValueError, rec)

s = Scheduler(); s.load()
print("result", s.run(main()))
q = CallGraphQuery(s.backend.session)
for st in ["RUNNING", "CACHED", "FAILED", "DONE"]:
    jobs = [j for j in q.filter_job_statuses([st]).all() if isinstance(j, DBJob)]
    print(st, [(j.task.name, j.status, j.cached) for j in jobs])
