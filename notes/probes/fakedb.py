"""Probe: symbolic tables + nested-loop evaluation of real SQLAlchemy clauses built by the real backend code."""
import operator
from types import SimpleNamespace as NS
from sqlalchemy.sql import elements as E, operators as O
from sqlalchemy.orm.attributes import InstrumentedAttribute
from sqlalchemy.orm.util import AliasedClass
import redun.backends.db as db
from redun.backends.db import RedunBackendDb, CallNode, Job, Tag, CallSubtreeTask
from redun.task import CacheScope, CacheCheckValid, CacheResult

def table_of(col):
    return col.table.name

class FakeQuery:
    def __init__(self, sess, entities):
        self.sess = sess
        self.entities = entities      # mapped classes or columns
        self.tables = []              # table names joined
        self.conds = []
        self.order = []
        for e in entities:
            t = e.__table__.name if hasattr(e, "__table__") else table_of(e.__clause_element__())
            if t not in self.tables:
                self.tables.append(t)
    def _clone(self):
        q = type(self).__new__(type(self))
        q.sess = self.sess; q.entities = self.entities
        q.tables = list(self.tables); q.conds = list(self.conds); q.order = list(self.order)
        return q
    def join(self, target, onclause=None):
        q = self._clone(); q.tables.append(target.__table__.name)
        if onclause is not None: q.conds.append(onclause)
        return q
    def filter(self, *clauses):
        q = self._clone(); q.conds.extend(clauses); return q
    def filter_by(self, **kw):
        q = self._clone()
        ent = self.entities[0]
        for k, v in kw.items():
            q.conds.append(getattr(ent, k) == v)
        return q
    def order_by(self, *o):
        q = self._clone(); q.order.extend(o); return q
    def _rows(self):
        out = []
        def rec(i, env):
            if i == len(self.tables):
                if all(truth(ev(c, env)) for c in self.conds):
                    out.append(dict(env))
                return
            for row in self.sess.tables[self.tables[i]]:
                env[self.tables[i]] = row
                rec(i + 1, env)
            env.pop(self.tables[i], None)
        rec(0, {})
        for o in reversed(self.order):
            desc = isinstance(o, E.UnaryExpression) and o.modifier is O.desc_op
            col = o.element if isinstance(o, E.UnaryExpression) else o
            out.sort(key=lambda env: ev(col, env), reverse=desc)
        res = []
        for env in out:
            vals = []
            for e in self.entities:
                if hasattr(e, "__table__"):
                    vals.append(env[e.__table__.name])
                else:
                    vals.append(ev(e.__clause_element__(), env))
            res.append(vals[0] if len(vals) == 1 and hasattr(self.entities[0], "__table__") else tuple(vals))
        return res
    def __iter__(self): return iter(self._rows())
    def all(self): return self._rows()
    def first(self):
        r = self._rows(); return r[0] if r else None

def truth(v):
    return v is True or (v is not None and v is not False and bool(v))

def ev(c, env):
    if hasattr(c, "__clause_element__"):
        c = c.__clause_element__()
    if isinstance(c, E.BindParameter):
        return c.value
    if isinstance(c, E.Cast):
        return ev(c.clause, env)
    if isinstance(c, E.Grouping):
        return ev(c.element, env)
    if isinstance(c, E.True_): return True
    if isinstance(c, E.False_): return False
    if isinstance(c, E.Null): return None
    if isinstance(c, E.BooleanClauseList):
        vals = [ev(x, env) for x in c.clauses]
        if c.operator is O.and_:
            if any(v is False for v in vals): return False
            if any(v is None for v in vals): return None
            return all(truth(v) for v in vals)
        else:
            if any(truth(v) for v in vals): return True
            if any(v is None for v in vals): return None
            return False
    if isinstance(c, E.BinaryExpression):
        l = ev(c.left, env)
        if c.operator is O.in_op:
            vals = c.right.value if isinstance(c.right, E.BindParameter) else [ev(x, env) for x in c.right.clauses]
            if l is None: return None
            return any(l == v for v in vals)
        r = ev(c.right, env)
        if c.operator in (O.is_, O.is_not):
            same = (l is None and r is None) or (l is not None and r is not None and l == r)
            return same if c.operator is O.is_ else not same
        if l is None or r is None: return None
        return {O.eq: operator.eq, O.ne: operator.ne, O.lt: operator.lt, O.le: operator.le, O.gt: operator.gt, O.ge: operator.ge}[c.operator](l, r)
    if hasattr(c, "table") and hasattr(c, "key"):
        return getattr(env[c.table.name], c.key)
    raise NotImplementedError(type(c))

class FakeSession:
    def __init__(self, tables): self.tables = tables
    def query(self, *entities): return FakeQuery(self, entities)

class FakeBackend:
    """Stand-in `self` for the real (unbound) RedunBackendDb methods."""
    check_cache = RedunBackendDb.check_cache
    _get_call_node = RedunBackendDb._get_call_node.__wrapped__ if hasattr(RedunBackendDb._get_call_node, "__wrapped__") else RedunBackendDb._get_call_node
    def __init__(self, tables):
        self.session = FakeSession(tables)
        self._db_retries = 0
    from contextlib import contextmanager
    @contextmanager
    def _acquire(self):
        yield
    def get_call_cache(self, call_hash):
        return ("RESULT", call_hash), True
    def get_eval_cache(self, eval_hash):
        return None, False

CTX = db.CONTEXT_KEY

def cse_ctx(cn_task: int, cn_args: int, job_task: int, job_exec: int, has_tag: bool, tag_val: int, req_ctx: int, use_ctx: bool) -> bool:
    """
    pre: 0 <= cn_task <= 1 and 0 <= cn_args <= 1 and 0 <= job_task <= 1 and 0 <= job_exec <= 1 and 0 <= tag_val <= 1 and 0 <= req_ctx <= 1
    post: _
    """
    tables = {
        "call_node": [NS(call_hash="c1", task_hash=cn_task, args_hash=cn_args, value_hash="v", timestamp=1)],
        "job": [NS(id="j1", call_hash="c1", task_hash=job_task, execution_id=job_exec, start_time=1)],
        "tag": [NS(tag_hash="t1", entity_id="c1", key=CTX, value=tag_val, is_current=True)] if has_tag else [],
        "call_subtree_task": [],
    }
    b = FakeBackend(tables)
    ctx = (1 if req_ctx == 1 else 0) if use_ctx else None
    result, call_hash, kind = b.check_cache(0, 0, "e", 0, set(), CacheScope.CSE, CacheCheckValid.FULL, ctx, None)
    if kind == CacheResult.CSE:
        # the call node's recorded context must equal the requested one
        recorded = tag_val if has_tag else None
        return recorded == ctx
    return True

# warm-up (concrete) so SQLAlchemy's lazily-built caches do not change the decision sequence between paths
for _a in (True, False):
    for _b in (True, False):
        cse_ctx(0, 0, 0, 0, _a, 1, 1, _b)
