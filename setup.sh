#!/bin/sh
# Build the analysis environment offline: an overlay venv on top of /venv (which has redun and
# its dependencies, /repo being installed there in editable mode) plus crosshair-tool/z3-solver
# from the offline wheelhouse.  Idempotent; safe to call concurrently (flock).
set -e
cd "$(dirname "$0")"
VENV=/verif/.venv
exec 9>/tmp/.verif-setup.lock
flock 9
if [ -x "$VENV/bin/python" ] && "$VENV/bin/python" -c "import crosshair, z3, redun, sqlalchemy" >/dev/null 2>&1; then
    exit 0
fi
rm -rf "$VENV"
/venv/bin/python -m venv "$VENV"
SP=$("$VENV/bin/python" -c "import sysconfig; print(sysconfig.get_paths()['purelib'])")
printf '%s\n' "import site; site.addsitedir('/venv/lib/python3.12/site-packages')" > "$SP/_verif_overlay.pth"
PIP_NO_INDEX=1 "$VENV/bin/pip" install -q --no-index --find-links /opt/veriftools/wheels crosshair-tool z3-solver >/dev/null
"$VENV/bin/python" -c "import crosshair, z3, redun, sqlalchemy; print('verif env ok: crosshair', crosshair.__version__, 'z3', z3.get_version_string(), 'redun', redun.__file__)"
