"""Replay a recorded counterexample on the real code (no CrossHair tracing, no stubs).

usage: python -m vp.replayer <replay.json>   ->  last line ``@@REPLAY {reproduced, detail, finding}``
"""
import importlib
import json
import sys
import traceback


def main():
    rec = json.load(open(sys.argv[1]))
    from vp.core import from_jsonable

    out = {"reproduced": None, "detail": "", "finding": None}
    try:
        mod = importlib.import_module(rec["module"])
        case = rec["case"]
        args = from_jsonable(case.get("args"))
        choices = from_jsonable(case.get("choices"))
        r = mod.replay(rec["cond"], args, {"choices": choices, "notes": from_jsonable(case.get("notes")),
                                         "slice": rec.get("slice"), "detail": case.get("detail")})
        out["reproduced"] = bool(r[0])
        out["detail"] = str(r[1])[:2000]
        if out["reproduced"]:
            out["finding"] = r[2] if len(r) > 2 else None
    except BaseException as e:  # noqa
        out["reproduced"] = None
        out["detail"] = "replay crashed: " + "".join(traceback.format_exception(type(e), e, e.__traceback__))[-1500:]
    sys.stdout.flush()
    print("@@REPLAY " + json.dumps(out))


if __name__ == "__main__":
    main()
