"""Run a harness module's stub / translator self-test (concrete, differential).

usage: python -m vp.selftest <module> <seed>  ->  ``@@SELFTEST {ok, info, detail}``
"""
import importlib
import json
import sys
import traceback


def main():
    out = {"ok": False, "info": None, "detail": ""}
    try:
        mod = importlib.import_module(sys.argv[1])
        seed = int(sys.argv[2]) if len(sys.argv) > 2 else 0
        info = mod.self_test(seed)
        out["ok"] = True
        out["info"] = info
    except BaseException as e:  # noqa
        out["detail"] = "".join(traceback.format_exception(type(e), e, e.__traceback__))[-3000:]
    print("@@SELFTEST " + json.dumps(out, default=str))


if __name__ == "__main__":
    main()
