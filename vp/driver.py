"""Property check driver.

  python -m vp.driver <PROPERTY_ID> [quick|thorough]
  python -m vp.driver --replay <replay.json>

Per property: (1) stub / translator self-test (concrete, differential), (2) witnesses of listed
known findings (concrete replay on the real code), (3) every condition x slice and its vacuity
twin through CrossHair in worker processes, (4) concrete replay of every solver counterexample on
the real code, (5) evidence file, exit code (0 ok / 1 VIOLATION / 3 harness error).
"""
import concurrent.futures as cf
import importlib
import json
import os
import subprocess
import sys
import tempfile
import time

ROOT = os.path.dirname(os.path.dirname(os.path.abspath(__file__)))
PY = sys.executable
KNOWN_FILE = os.path.join(ROOT, "known_findings.json")
NPROC = int(os.environ.get("VERIF_JOBS", str(os.cpu_count() or 4)))


def log(*a):
    print(*a, flush=True)


def run_json(cmd, marker, timeout):
    """Run a subprocess; return (parsed JSON after marker or None, stdout+stderr tail)."""
    env = dict(os.environ)
    env["PYTHONPATH"] = ROOT + os.pathsep + env.get("PYTHONPATH", "")
    env["PYTHONDONTWRITEBYTECODE"] = "1"
    env.setdefault("PYTHONHASHSEED", "0")
    try:
        p = subprocess.run(
            cmd, capture_output=True, text=True, timeout=timeout, env=env, cwd=ROOT
        )
        out = p.stdout + p.stderr
    except subprocess.TimeoutExpired as e:
        out = (e.stdout or b"").decode("utf8", "replace") if isinstance(e.stdout, bytes) else (e.stdout or "")
        return None, "TIMEOUT after %ss\n%s" % (timeout, out[-2000:])
    for line in reversed(out.splitlines()):
        if line.startswith(marker):
            try:
                return json.loads(line[len(marker):]), out[-3000:]
            except Exception:
                break
    return None, out[-3000:]


def load_known(pid):
    if not os.path.exists(KNOWN_FILE):
        return []
    data = json.load(open(KNOWN_FILE))
    return [e for e in data.get("findings", []) if e.get("property") == pid]


def run_worker(tmpdir, module, cond, sl, twin, timeout, path_timeout, exclude, idx):
    spec = {
        "module": module,
        "cond": cond,
        "slice": sl,
        "twin": twin,
        "timeout": timeout,
        "path_timeout": path_timeout,
        "exclude": exclude,
        "case_file": os.path.join(tmpdir, "case-%d.json" % idx),
    }
    sp = os.path.join(tmpdir, "spec-%d.json" % idx)
    json.dump(spec, open(sp, "w"))
    res, out = run_json([PY, "-m", "vp.worker", sp], "@@RESULT ", timeout * 2 + 120)
    if res is None:
        # a worker that had to be killed at the hard limit (twice its budget + 2 min) did not decide anything: inconclusive,
        # reported as such (never a pass, never a violation); any other loss of a worker is a harness error
        res = {
            "cond": cond,
            "slice": sl,
            "twin": twin,
            "verdict": "CANNOT_CONFIRM" if out.startswith("TIMEOUT after") else "HARNESS_ERROR",
            "paths": 0,
            "z3_queries": 0,
            "solver_s": 0.0,
            "wall_s": 0.0,
            "message": out,
        }
    return res


def do_replay(path, timeout=600):
    res, out = run_json([PY, "-m", "vp.replayer", path], "@@REPLAY ", timeout)
    if res is None:
        return {"reproduced": None, "detail": "replayer failed: " + out[-1500:], "finding": None}
    return res


def write_replay_file(pid, module, cond, sl, case, tag=""):
    d = os.path.join(ROOT, "replays")
    os.makedirs(d, exist_ok=True)
    slname = ""
    if sl is not None:
        import hashlib

        slname = "-" + "".join(ch for ch in str(sl) if ch.isalnum())[:12] + "_" + hashlib.sha1(
            json.dumps(sl).encode()).hexdigest()[:6]
    path = os.path.join(d, "%s-%s%s%s.json" % (pid, cond, slname, tag))
    json.dump(
        {"property": pid, "module": module, "cond": cond, "slice": sl, "case": case,
         "how": "./check --replay " + path},
        open(path, "w"), indent=1,
    )
    return path


def main(argv):
    if argv and argv[0] == "--replay":
        r = do_replay(argv[1])
        log(json.dumps(r, indent=1))
        return 1 if r.get("reproduced") else 0
    pid = argv[0]
    tier = argv[1] if len(argv) > 1 else os.environ.get("VERIF_TIER", "quick")
    seed = int(os.environ.get("VERIF_SEED", "0") or 0)
    module = "vp.harness." + pid.lower()
    t0 = time.time()
    mod = importlib.import_module(module)
    conds = [c for c in mod.CONDITIONS if tier == "thorough" or c.tier == "quick"]
    tmpdir = tempfile.mkdtemp(prefix="verif-%s-" % pid)
    harness_errors = []
    violations = []
    known_lines = []

    # (1) self-test of stubs/translators --------------------------------------------------
    selftest = {"checked": 0}
    if hasattr(mod, "self_test"):
        res, out = run_json([PY, "-m", "vp.selftest", module, str(seed)], "@@SELFTEST ", 900)
        if res is None or not res.get("ok"):
            log("HARNESS-ERROR self-test failed for %s:\n%s" % (pid, (res or {}).get("detail") or out))
            harness_errors.append("self_test")
        else:
            selftest = res
            log("self-test ok: %s" % json.dumps(res.get("info")))

    # (2) witnesses of listed known findings ---------------------------------------------
    known = load_known(pid)
    exclude = []
    for e in known:
        if e.get("status") != "known":
            continue
        wit = os.path.join(ROOT, e["witness"])
        r = do_replay(wit)
        if r.get("reproduced") and r.get("finding") == e["id"]:
            line = "KNOWN-FINDING: property=%s %s [%s]" % (pid, e["what_fails"], e["id"])
            log(line)
            known_lines.append(line)
        else:
            log("note: listed finding %s no longer reproduces (%s)" % (e["id"], str(r.get("detail"))[:200]))
        exclude.append(e["id"])

    # (3) conditions ---------------------------------------------------------------------
    jobs = []
    # thorough tier = every quick slice with its quick budget, plus the thorough-only slices.  A wall-clock budget per property
    # (VERIF_THOROUGH_BUDGET_S, default 1200 s) caps the per-slice budgets of the thorough-only slices so that their worst case
    # (every slice running into its time-out) stays near the budget.  Slices that run out of budget end inconclusive
    # (reported, never counted as discharged, never a violation).
    def _key(sl):
        return json.dumps(sl, default=list)
    tmo_of = {}
    budget = float(os.environ.get("VERIF_THOROUGH_BUDGET_S", "1200"))
    plan = []  # (condition, slice, budget)
    extra = []
    for c in conds:
        quick = c.slices_for("quick") if c.tier == "quick" else []
        for sl in quick:
            plan.append((c, sl, c.timeout))
        tmo_of[c.name] = c.timeout
        if tier == "thorough":
            qk = set(_key(sl) for sl in quick)
            for sl in c.slices_for("thorough"):
                if _key(sl) not in qk:
                    extra.append((c, sl))
    if extra:
        per = budget * NPROC / len(extra)
        for c, sl in extra:
            t = max(60.0, min(c.thorough_timeout, per))
            plan.append((c, sl, t))
            tmo_of[c.name + " (thorough-only slices)"] = round(t, 1)
    for c, sl, tmo in plan:
        jobs.append((c, sl, False, tmo))
        jobs.append((c, sl, True, min(tmo, 120)))
    results = []
    with cf.ThreadPoolExecutor(max_workers=NPROC) as ex:
        futs = {}
        for i, (c, sl, twin, tmo) in enumerate(jobs):
            f = ex.submit(run_worker, tmpdir, module, c.name, sl, twin, tmo, c.path_timeout, exclude, i)
            futs[f] = (c, sl, twin)
        for f in cf.as_completed(futs):
            c, sl, twin = futs[f]
            r = f.result()
            results.append(r)
            if not twin:
                log("  %-9s %-40s slice=%-12s paths=%-6d z3=%-6d %.1fs" % (
                    r["verdict"], c.name, sl, r.get("paths", 0), r.get("z3_queries", 0), r.get("wall_s", 0)))

    mains = {(r["cond"], json.dumps(r["slice"])): r for r in results if not r["twin"]}
    twins = {(r["cond"], json.dumps(r["slice"])): r for r in results if r["twin"]}

    # (4) triage ------------------------------------------------------------------------
    cond_records = []
    validated = 0
    samples = []
    for c, sl, _tmo in plan:
        if True:
            key = (c.name, json.dumps(list(sl) if isinstance(sl, tuple) else sl))
            m = mains[key]
            t = twins[key]
            rec = {
                "name": c.name, "slice": sl, "verdict": m["verdict"], "paths": m.get("paths", 0),
                "z3_queries": m.get("z3_queries", 0), "solver_s": m.get("solver_s", 0.0),
                "wall_s": m.get("wall_s", 0.0), "bounds": c.bounds,
            }
            status = "inconclusive"
            if m["verdict"] == "HARNESS_ERROR" or m["verdict"] in ("SYNTAX_ERR", "IMPORT_ERR", "NO_CONDITION"):
                harness_errors.append("%s[%s]: %s" % (c.name, sl, m.get("message", "")[-1500:]))
                status = "harness_error"
            elif m["verdict"] in ("POST_FAIL", "EXEC_ERR", "POST_ERR"):
                case = m.get("case")
                if not case or case.get("twin"):
                    harness_errors.append("%s[%s]: %s without recorded case: %s" % (
                        c.name, sl, m["verdict"], m.get("message", "")[-1500:]))
                    status = "harness_error"
                else:
                    path = write_replay_file(pid, module, c.name, sl, case)
                    r = do_replay(path)
                    rec["counterexample"] = case
                    rec["replay"] = r
                    if r.get("reproduced") is True:
                        fid = r.get("finding")
                        ke = [e for e in known if e["id"] == fid and e.get("status") == "known"]
                        if ke:
                            line = "KNOWN-FINDING: property=%s %s [%s]" % (pid, ke[0]["what_fails"], fid)
                            if line not in known_lines:
                                log(line)
                                known_lines.append(line)
                            status = "known_finding"
                        else:
                            log("VIOLATION property=%s replay=%s" % (pid, path))
                            log("   condition %s slice=%s: %s" % (c.name, sl, str(r.get("detail"))[:600]))
                            violations.append(path)
                            status = "violation"
                    else:
                        harness_errors.append(
                            "%s[%s]: counterexample %s did not reproduce on the real code: %s"
                            % (c.name, sl, json.dumps(case)[:400], str(r.get("detail"))[:600]))
                        status = "harness_error"
            elif m["verdict"] == "CONFIRMED":
                # vacuity twin must reach the assertion
                tc = t.get("case")
                if t["verdict"] == "POST_FAIL" and tc and tc.get("twin"):
                    status = "discharged"
                    # validate the solver-chosen path concretely on the real code
                    path = write_replay_file(pid, module, c.name, sl, tc, tag="-twin")
                    r = do_replay(path)
                    if r.get("reproduced") is False:
                        validated += 1
                        os.remove(path)
                        if len(samples) < 6:
                            samples.append({"condition": c.name, "slice": sl, "bounds": c.bounds,
                                            "verdict": "CONFIRMED over all paths",
                                            "solver_chosen_input_validated_on_real_code": tc.get("args"),
                                            "choices": tc.get("choices")})
                    elif r.get("reproduced") is True:
                        fid = r.get("finding")
                        ke = [e for e in known if e["id"] == fid and e.get("status") == "known"]
                        if ke:
                            os.remove(path)
                        else:
                            log("VIOLATION property=%s replay=%s" % (pid, path))
                            log("   (concrete validation of a solver-chosen path of %s failed on the real code although"
                                " the stubbed encoding was confirmed: %s)" % (c.name, str(r.get("detail"))[:400]))
                            violations.append(path)
                            status = "violation"
                    else:
                        rec["twin_replay_note"] = str(r.get("detail"))[:300]
                        os.remove(path)
                else:
                    status = "vacuous"
                    rec["twin_verdict"] = t["verdict"]
                    rec["twin_message"] = t.get("message", "")[-600:]
                    log("  note: %s slice=%s CONFIRMED but its reachability twin came back %s -> not discharged"
                        % (c.name, sl, t["verdict"]))
            else:
                status = "inconclusive"  # CANNOT_CONFIRM / PRE_UNSAT
                rec["message"] = m.get("message", "")[-300:]
            rec["status"] = status
            cond_records.append(rec)

    # (5) evidence ----------------------------------------------------------------------
    obligations = len(cond_records)
    discharged = sum(1 for r in cond_records if r["status"] == "discharged")
    inconclusive = [r["name"] + ("" if r["slice"] is None else "[%s]" % (r["slice"],))
                    for r in cond_records if r["status"] in ("inconclusive", "vacuous")]
    paths = sum(r["paths"] for r in cond_records)
    queries = sum(r["z3_queries"] for r in cond_records)
    if not samples:
        for r in cond_records[:3]:
            samples.append({"condition": r["name"], "slice": r["slice"], "verdict": r["verdict"], "bounds": r["bounds"]})
    functions = sorted(set(getattr(mod, "FUNCTIONS", [])) | set(f for c in conds for f in c.functions))
    evidence = {
        "property_id": pid,
        "tier": tier,
        "seed": seed,
        "level": "model_checking",
        "coverage": {
            "states": max(paths, 1) if cond_records else 0,
            "transitions": max(queries, 1) if cond_records else 0,
            "traces_validated_against_impl": validated,
            "samples": samples,
            "obligations": obligations,
            "discharged": discharged,
            "inconclusive": inconclusive,
            "exhaustive": bool(obligations) and discharged == obligations,
            "explanation": "states = execution paths explored by CrossHair; in a symbolic-data condition a path is decided by z3 "
                           "for ALL values of the symbolic inputs on that path, in a history / schedule condition (DESIGN.md 2.2) a path "
                           "is one concrete run of the real code selected by solver-decided choice variables and the claim is "
                           "that every choice vector within the bound was visited; transitions = z3 check() calls; an obligation is one "
                           "condition x partition slice and is discharged only when CrossHair exhausted its path tree "
                           "(CONFIRMED) and its reachability twin was refuted; traces_validated = solver-chosen inputs "
                           "re-executed on the real, unstubbed code that agreed with the confirmed assertion.",
            "functions_encoded": functions,
            "bounds": {c.name: c.bounds for c in conds},
            "per_slice_time_budget_s": tmo_of,
            "conditions": [
                {k: r[k] for k in ("name", "slice", "verdict", "status", "paths", "z3_queries", "solver_s", "wall_s")}
                for r in cond_records
            ],
            "solver_s": round(sum(r["solver_s"] for r in cond_records), 2),
            "solver": "z3 %s via crosshair-tool 0.0.110" % _z3_version(),
            "self_test": selftest.get("info"),
            "known_findings_reported": known_lines,
            "harness_errors": [h[:300] for h in harness_errors],
        },
        "assumptions": list(getattr(mod, "ASSUMPTIONS", [])),
        "wall_s": round(time.time() - t0, 2),
        "violations": len(violations),
    }
    os.makedirs(os.path.join(ROOT, "evidence"), exist_ok=True)
    with open(os.path.join(ROOT, "evidence", pid + ".json"), "w") as f:
        json.dump(evidence, f, indent=1, default=str)
    import shutil

    shutil.rmtree(tmpdir, ignore_errors=True)
    log("%s %s: %d/%d obligations discharged, %d paths, %d z3 queries, %.0fs wall; inconclusive=%s" % (
        pid, tier, discharged, obligations, paths, queries, time.time() - t0, inconclusive))
    if violations:
        return 1
    if harness_errors:
        for h in harness_errors:
            log("HARNESS-ERROR " + h)
        return 3
    return 0


def _z3_version():
    try:
        import z3

        return z3.get_version_string()
    except Exception:
        return "?"


if __name__ == "__main__":
    sys.exit(main(sys.argv[1:]))
