"""Shared template for C06 / C12: one call is reached a second time from the workflow *after* its first use has finished.

main creates a call x = fetch(salt) and uses it twice: first inside catch(ok(x), Err, not_ok) (so a failure is handled),
and then again - the very same expression object, or a fresh equal call - in a position that is evaluated only later
(cond branch, second element of seq, a follow-up task that depends on the first outcome) or in the same sweep.  The kind of
task (plain / cache_scope NONE / async; failing or not), the kind of second use and its form are solver choice variables.
The real scheduler runs with its stock executors (the forms make the order deterministic).

Expected, from the property statements: the call's body runs once; both uses see the outcome of that one run; if the second
use is not protected by a catch and the call failed, run raises that error (type and message) instead of returning.
"""
import importlib
import logging
import os

from redun import task
from redun.functools import seq
from redun.scheduler import catch, cond

RS = importlib.import_module("redun.scheduler")
db = importlib.import_module("redun.backends.db")

NS = "vp_reuse"
CALLS = []
_N = [0]


class FetchError(Exception):
    pass


def _body(name, salt, fail_first_only=False, fail=True):
    CALLS.append((name, salt))
    n = sum(1 for c in CALLS if c == (name, salt))
    if fail and (not fail_first_only or n == 1):
        raise FetchError("%s failed on attempt %d" % (name, n))
    return "%s payload of attempt %d" % (name, n)


@task(name="fetch_fail", namespace=NS, version="1")
def fetch_fail(salt):
    return _body("fetch_fail", salt)


@task(name="fetch_ok", namespace=NS, version="1")
def fetch_ok(salt):
    return _body("fetch_ok", salt, fail=False)


@task(name="fetch_nocache_flaky", namespace=NS, version="1", cache_scope="NONE")
def fetch_nocache_flaky(salt):
    return _body("fetch_nocache_flaky", salt, fail_first_only=True)


@task(name="fetch_nocache_ok", namespace=NS, version="1", cache_scope="NONE")
def fetch_nocache_ok(salt):
    return _body("fetch_nocache_ok", salt, fail=False)


@task(name="fetch_async_fail", namespace=NS, version="1", cache=True, check_valid="shallow")
async def fetch_async_fail(salt):
    return _body("fetch_async_fail", salt)


@task(name="fetch_async_ok", namespace=NS, version="1", cache=True, check_valid="shallow")
async def fetch_async_ok(salt):
    return _body("fetch_async_ok", salt, fail=False)


KINDS = [("fetch_fail", fetch_fail, True, False), ("fetch_ok", fetch_ok, False, False),
         ("fetch_nocache_flaky", fetch_nocache_flaky, True, True), ("fetch_nocache_ok", fetch_nocache_ok, False, True),
         ("fetch_async_fail", fetch_async_fail, True, False), ("fetch_async_ok", fetch_async_ok, False, False)]
SECOND = ["same_expression", "equal_call"]
FORMS = ["cond_else_caught", "cond_uncaught", "seq_caught_then_uncaught", "followup_task_caught", "same_sweep_uncaught"]


@task(name="ok", namespace=NS, version="1")
def ok(value):
    return True


@task(name="not_ok", namespace=NS, version="1")
def not_ok(error):
    return False


@task(name="report", namespace=NS, version="1")
def report(error):
    return "error: %s" % (error,)


@task(name="report2", namespace=NS, version="1")
def report2(error):
    return "error: %s" % (error,)


@task(name="again", namespace=NS, version="1", cache=False)
def again(first, kind_i, salt):
    # `first` is the handled outcome of the first use, so this task starts only after the first call has finished
    f = KINDS[kind_i][1]
    return [first, catch(f(salt), FetchError, report2)]


@task(name="main", namespace=NS, version="1", cache=False)
def main(kind_i, second_i, form_i, salt):
    f = KINDS[kind_i][1]
    x = f(salt)
    y = x if SECOND[second_i] == "same_expression" else f(salt)
    form = FORMS[form_i]
    if form == "same_sweep_uncaught":
        return [catch(ok(x), FetchError, not_ok), y]
    healthy = catch(ok(x), FetchError, not_ok)
    if form == "cond_else_caught":
        return cond(healthy, y, catch(y, FetchError, report))
    if form == "cond_uncaught":
        return cond(healthy, ["healthy", y], ["unhealthy", y])
    if form == "seq_caught_then_uncaught":
        return seq([catch(x, FetchError, report), y])
    return again(catch(x, FetchError, report), kind_i, salt)


def applicable(kind_i, second_i, form_i):
    name, f, fails, optout = KINDS[kind_i]
    # a task that opted out of deduplication (cache_scope NONE) runs once per call EXPRESSION: only the same-expression reuse
    # is constrained by the property
    if optout and SECOND[second_i] == "equal_call":
        return False
    if FORMS[form_i] == "followup_task_caught" and SECOND[second_i] == "same_expression":
        return False  # the follow-up task builds its own (equal) call
    if FORMS[form_i] == "followup_task_caught" and optout:
        return False
    return True


def expected(kind_i, second_i, form_i, salt):
    """('ok', value) | ('error', message)"""
    name, f, fails, optout = KINDS[kind_i]
    form = FORMS[form_i]
    msg = "%s failed on attempt 1" % name
    val = "%s payload of attempt 1" % name
    if form == "same_sweep_uncaught":
        return ("error", msg) if fails else ("ok", [True, val])
    if form == "cond_else_caught":
        return ("ok", "error: " + msg) if fails else ("ok", val)
    if form == "cond_uncaught":
        return ("error", msg) if fails else ("ok", ["healthy", val])
    if form == "seq_caught_then_uncaught":
        return ("error", msg) if fails else ("ok", [val, val])
    return ("ok", ["error: " + msg, "error: " + msg]) if fails else ("ok", [val, val])


def run_case(kind_i, second_i, form_i):
    """Returns (ok, detail)."""
    logging.disable(logging.CRITICAL)
    if not applicable(kind_i, second_i, form_i):
        return True, "not applicable"
    _N[0] += 1
    salt = "r%d_%d" % (os.getpid(), _N[0])
    name = KINDS[kind_i][0]
    s = RS.Scheduler()
    s.load()
    try:
        out = ("ok", s.run(main(kind_i, second_i, form_i, salt)))
    except FetchError as e:
        out = ("error", str(e))
    except Exception as e:
        return False, "%s: run raised %s: %s" % (_desc(kind_i, second_i, form_i), type(e).__name__, e)
    want = expected(kind_i, second_i, form_i, salt)
    ran = sum(1 for c in CALLS if c == (name, salt))
    if ran != 1:
        return False, "%s: the call's body ran %d times (expected once); outcome %r" % (_desc(kind_i, second_i, form_i), ran, out)
    if out != want:
        return False, "%s: run %s %r, expected it to %s %r" % (
            _desc(kind_i, second_i, form_i), "returned" if out[0] == "ok" else "raised FetchError", out[1],
            "return" if want[0] == "ok" else "raise FetchError", want[1])
    # the job rows: every job of the call has ended, and a failed call is displayed FAILED
    rows = s.backend.session.query(db.Job).filter(db.Job.task_hash == KINDS[kind_i][1].hash).all()
    rows = [r for r in rows if r.execution_id == s._current_execution.id] if getattr(s, "_current_execution", None) else rows
    for r in rows:
        if r.end_time is None:
            return False, "%s: a job of the call has no end time (status %s)" % (_desc(kind_i, second_i, form_i), r.status)
        if KINDS[kind_i][2] and r.status != "FAILED":
            return False, "%s: a job of the failing call is recorded %s" % (_desc(kind_i, second_i, form_i), r.status)
    if SECOND[second_i] == "same_expression" and len(rows) != 1:
        return False, "%s: %d jobs were created for the one expression" % (_desc(kind_i, second_i, form_i), len(rows))
    return True, "ok"


def _desc(kind_i, second_i, form_i):
    return "x = %s(salt) used in catch(ok(x), ...) and then again (%s) as %s" % (KINDS[kind_i][0], SECOND[second_i], FORMS[form_i])
