"""C24 — Tag history behaves like a key-value multiset.

Real code: RedunBackendDb.record_tags (incl. its recursive walk for superseded tags) / delete_tags / get_tags /
Tag.get_delete_tag / hash_tag, called exactly as `redun tag add|update|rm` call them, on the real in-memory SQLite
backend.  The history (operation, entity, key, value per step) is a vector of solver choice variables; the oracle is the
key-value model of the statement; after every step the tag_edit graph is checked to be acyclic.
"""
import importlib

from vp.core import SL, Condition, choose, excluded, guard, native

db = importlib.import_module("redun.backends.db")
from redun.backends.base import TagEntity  # noqa: E402

PROPERTY = "C24"
FUNCTIONS = ["redun.backends.db.RedunBackendDb.record_tags", "RedunBackendDb.delete_tags", "RedunBackendDb.get_tags",
             "redun.backends.db.Tag.get_delete_tag", "redun.hashing.hash_tag"]
ASSUMPTIONS = [
    "histories of <= 3 (quick) / 4 (thorough) commands over 2 entities, keys from {k, l}, values from {0, 1} (thorough: also "
    "'x' and null), run against the real in-memory SQLite backend (no stub); fresh entity ids per history",
    "model: add makes the pair current (a pair that is already current stays current once), update replaces all values of the "
    "key by the given one, rm removes the given pairs / all pairs of the given keys; other entities are never affected",
    "one command never names the same pair twice (`tag add e k=1 k=1` raises IntegrityError - observed, outside the claim)",
    "CLI argument parsing is C34's subject; Postgres is outside",
]

OPS = ["add", "update", "rm_pair", "rm_key", "add_two", "rm_mixed"]
ENTS = ["A", "B"]
_STATE = {"backend": None, "n": 0}


def _backend():
    if _STATE["backend"] is None:
        import logging
        logging.disable(logging.CRITICAL)
        b = db.RedunBackendDb(db_uri="sqlite:///:memory:")
        b.load()
        _STATE["backend"] = b
    return _STATE["backend"]


def _domains(level):
    if level == 3:
        return ["k"], [1, True]  # equal in Python, distinct as JSON tag values
    keys = ["k", "l"] if level >= 1 else ["k"]
    vals = [0, 1, "x", None] if level >= 2 else [0, 1]
    return keys, vals


def _tok(v):
    """A tag value as the JSON text that identifies it (1, true and 1.0 are different tag values)."""
    import json
    return json.dumps(v)


def run_history(steps, tolerate=False):
    try:
        return _run_history(steps, tolerate)
    except Exception as e:
        try:
            _backend().session.rollback()
        except Exception:
            _STATE["backend"] = None
        return False, "history %r raised %s: %s" % (steps, type(e).__name__, str(e)[:200]), None


def _run_history(steps, tolerate=False):
    """steps: list of (op, entity, key, value, key2, value2).  Returns (ok, detail, finding id or None).

    tolerate: the listed finding (an add of a pair that is already current leaves it current twice when the existing current
    tag is not the one the add's walk down the edit graph reaches) is accepted and the model follows the code."""
    b = _backend()
    _STATE["n"] += 1
    uid = "h%d_" % _STATE["n"]
    model = {e: [] for e in ENTS}  # entity -> list of current (key, value)
    trace = []
    for (op, e, k, v, k2, v2) in steps:
        ent = uid + e
        cur = model[e]
        readded = []
        if op in ("add", "add_two"):
            pairs = [(k, v)] if op == "add" or (k2, _tok(v2)) == (k, _tok(v)) else [(k, v), (k2, v2)]
            trace.append("tag add %s %s" % (e, " ".join("%s=%r" % p for p in pairs)))
            b.record_tags(TagEntity.Job, ent, pairs, new=True)
            for p in [(pk, _tok(pv)) for pk, pv in pairs]:
                if p in cur:
                    readded.append(p)
                else:
                    cur.append(p)
        elif op == "update":
            trace.append("tag update %s %s=%r" % (e, k, v))
            b.record_tags(TagEntity.Job, ent, [(k, v)], update=True)
            model[e] = cur = [p for p in cur if p[0] != k] + [(k, _tok(v))]
        elif op == "rm_pair":
            trace.append("tag rm %s %s=%r" % (e, k, v))
            b.delete_tags(ent, [(k, v)])
            model[e] = cur = [p for p in cur if p != (k, _tok(v))]
        elif op == "rm_key":
            trace.append("tag rm %s -- %s" % (e, k))
            b.delete_tags(ent, [], [k])
            model[e] = cur = [p for p in cur if p[0] != k]
        else:  # rm_mixed: one pair and one key in the same command
            trace.append("tag rm %s %s=%r %s" % (e, k, v, k2))
            b.delete_tags(ent, [(k, v)], [k2])
            model[e] = cur = [p for p in cur if not (p == (k, _tok(v)) or p[0] == k2)]
        # compare every entity with the model
        got = b.get_tags([uid + x for x in ENTS])
        for x in ENTS:
            mm = got.get(uid + x)
            items = sorted(((kk, _tok(vv)) for kk, vv in (mm.items() if mm else [])), key=repr)
            want = sorted(model[x], key=repr)
            if items != want:
                extra = list(items)
                for p in want:
                    if p in extra:
                        extra.remove(p)
                only_dups_of_readded = (x == e and len(items) > len(want) and all(p in readded for p in extra)
                                        and all(p in items for p in want))
                if only_dups_of_readded and tolerate:
                    model[x] = list(items)
                    continue
                return False, "after [%s]: entity %s has current tags %r, the model says %r" % (
                    "; ".join(trace), x, items, want), ("add-of-current-pair-duplicates-it" if only_dups_of_readded else None)
        err = _graph_ok(b, uid)
        if err:
            return False, "after [%s]: %s" % ("; ".join(trace), err), None
    return True, "ok", None


def _graph_ok(b, uid):
    """tag_edit is acyclic and a tag with an outgoing edit edge is never current (restricted to this history's tags)."""
    s = b.session
    tags = {t.tag_hash: t for t in s.query(db.Tag).filter(db.Tag.entity_id.like(uid + "%")).all()}
    edges = [(e.parent_id, e.child_id) for e in s.query(db.TagEdit).all() if e.parent_id in tags]
    for p, c in edges:
        if tags[p].is_current:
            return "tag %s=%r on %s has been superseded but is still current" % (tags[p].key, tags[p].value, tags[p].entity_id)
    children = {}
    for p, c in edges:
        children.setdefault(p, []).append(c)
    all_edges = {}
    for e in s.query(db.TagEdit).all():
        all_edges.setdefault(e.parent_id, []).append(e.child_id)
    for start in tags:
        seen, stack = set(), list(all_edges.get(start, []))
        while stack:
            n = stack.pop()
            if n == start:
                return "cycle in tag_edit through tag %s" % start
            if n in seen:
                continue
            seen.add(n)
            stack.extend(all_edges.get(n, []))
    return None


def _commands(level):
    """Every distinct command over the level's domain."""
    keys, vals = _domains(level)
    cmds = []
    for e in ENTS:
        for k in keys:
            cmds.append(("rm_key", e, k, None, None, None))
            for v in vals:
                cmds.append(("add", e, k, v, None, None))
                cmds.append(("update", e, k, v, None, None))
                cmds.append(("rm_pair", e, k, v, None, None))
                for k2 in keys:
                    cmds.append(("rm_mixed", e, k, v, k2, None))
        pairs = [(k, v) for k in keys for v in vals]
        for i, p in enumerate(pairs):
            for q in pairs[i + 1:]:
                cmds.append(("add_two", e, p[0], p[1], q[0], q[1]))
    return cmds


def _pick_steps(n, level, pick, first=None):
    cmds = _commands(level)
    steps = []
    for i in range(n):
        if first is not None and i == 0:
            steps.append(cmds[first])
        else:
            steps.append(cmds[pick(len(cmds), "command")])
    return steps


def c24_history(k: int) -> bool:
    """
    post: _
    """
    def body():
        n, level, first = SL()
        steps = _pick_steps(n, level, choose, first)
        tolerate = excluded("add-of-current-pair-duplicates-it")
        return native(lambda: run_history(steps, tolerate)[0])
    return guard(body, k=k)


_N0, _N1, _N3 = len(_commands(0)), len(_commands(1)), len(_commands(3))
CONDITIONS = [
    Condition(c24_history, slices=[(3, 0, f) for f in range(_N0)] + [(2, 1, f) for f in range(0, _N1, 3)] + [(2, 3, f) for f in range(_N3)]
              + [(2, 2, 16), (2, 2, 38), (2, 2, 44)],  # first command writes a null value (level 2)
              thorough_slices=[(2, 1, f) for f in range(_N1)] + [(2, 2, f) for f in range(0, len(_commands(2)), 2)]
              + [(4, 0, f) for f in range(_N0)] + [(3, 3, f) for f in range(_N3)],
              timeout=170, thorough_timeout=2400,
              bounds="slice = (number of commands, domain level, index of the fixed first command); every later command is "
                     "solver-chosen among all distinct commands of the level (%d at level 0, %d at level 1): %r on entities A/B; "
                     "level 0: key k, values 0/1; level 1: keys k/l; level 2: values also 'x' and null; level 3: key k, values 1 and true (equal "
                     "in Python, distinct tag values)" % (_N0, _N1, OPS)),
]


def replay(cond, args, extra):
    it = iter(extra["choices"])
    n, level, first = extra["slice"]
    steps = _pick_steps(n, level, lambda m, label: next(it)[1], first)
    ok, detail, fid = run_history(steps)
    if ok:
        return False, "history agrees with the model"
    return True, detail, fid
