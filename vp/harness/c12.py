"""C12 — Failures propagate and are never replayed from the cache.

(a) SchedLab runs (stub S6): workflow shape, completion schedule and symbolic limits as in C08; asserted: an uncaught
    failure makes run raise the failing task's exception type and message; the failing job and each of its ancestors are
    recorded FAILED with an ErrorValue result; in a second execution on the same backend the failed call is handed to the
    executor again.
(b) kernel: the real Scheduler._get_cache with the backend's check_cache replaced by a stub returning a solver-chosen
    (result kind, cache type): an ErrorValue is used only for an in-execution (CSE) hit; invalid values are misses.
"""
import importlib

from vp.core import SL, Condition, choose, excluded, guard, native
from vp.harness import c08 as L
from vp.harness import schedprog as P
from vp.stubs.schedlab import Lab

RS = importlib.import_module("redun.scheduler")
db = importlib.import_module("redun.backends.db")
from redun.task import CacheResult  # noqa: E402

PROPERTY = "C12"
FUNCTIONS = L.FUNCTIONS + ["redun.scheduler.Scheduler._reject_job_main_thread (recording)", "Scheduler._get_cache",
                           "Scheduler.run (raising)", "redun.backends.db.RedunBackendDb.check_cache", "redun.scheduler.ErrorValue"]
ASSUMPTIONS = L.ASSUMPTIONS + [
    "error objects: an ordinary exception subclass and one that carries an unpicklable attribute (a lock); a CAUGHT failure with "
    "the unpicklable object may end in TypeError when it is handed to the recover task (not C12's subject, accepted)",
    "c12_reuse: second template on the stock scheduler and executors (vp/harness/reuse.py): a failing call handled once by catch "
    "and reached again later (same expression or equal call) caught or uncaught",
    "_get_cache kernel: check_cache stubbed to return a solver-chosen result kind (value / ErrorValue / invalid file value) and "
    "cache type (MISS / CSE / SINGLE / ULTIMATE)",
]
install = L.install
B = L.BRANCH


def check_c12(lab, outcome, spec, with_bad, salt, backend, pick, limits, leaf_limits, mid_limits):
    want, errors = P.expected(spec, with_bad)
    if P.unpicklable_outcome(spec, outcome):
        # a CAUGHT failure whose exception object cannot be pickled: handing it to the recover task fails (arguments are hashed
        # by pickling), on the stock scheduler too.  C12 speaks about uncaught failures; nothing to check here.
        return None
    if not errors:
        return None if outcome[0] == "ok" else "run did not return although every failure is caught: %r" % (outcome,)
    if outcome[0] != "error":
        return "uncaught leaf failure(s) %r but run ended with %r" % (errors, outcome)
    err = outcome[1]
    if not isinstance(err, P.LeafError) or str(err) not in errors:
        return "run raised %r (%s), expected LeafError with one of %r" % (err, type(err).__name__, errors)
    # recorded: the failing leaf and each ancestor FAILED with an ErrorValue result
    s = backend.session
    jobs = s.query(db.Job).filter(db.Job.execution_id == salt).all()
    by_id = {j.id: j for j in jobs}
    failing = [j for j in jobs if j.task.name == "leaf" and j.call_node is not None
               and j.call_node.value.type == "redun.ErrorValue" and not j.cached]
    hit = None
    for j in failing:
        v = j.call_node.value.value_parsed
        if str(getattr(v, "error", "")) == str(err) or str(err) in repr(getattr(v, "error", "")):
            hit = j
    if hit is None:
        return "no FAILED leaf job with an ErrorValue result for %r is recorded (failed leaf rows: %d)" % (str(err), len(failing))
    j = hit
    chain = []
    while j is not None:
        chain.append(j)
        if j.status != "FAILED":
            return "job of task %s on the path from the failing leaf to the root is recorded %s, not FAILED" % (j.task.name, j.status)
        if j.call_node is None or j.call_node.value.type != "redun.ErrorValue":
            return "job of task %s has no ErrorValue result recorded" % j.task.name
        j = by_id.get(j.parent_id)
    if chain[-1].task.name not in ("main", "main_bad"):
        return "the failing job's ancestors do not reach the root job"
    ex = s.query(db.Execution).filter(db.Execution.id == salt).one()
    if ex.status != "FAILED":
        return "execution is displayed %s" % ex.status
    # a later execution executes the failed call again
    if len(errors) == 1:
        lab2, outcome2, _ = P.run_case(spec, pick, limits, leaf_limits, mid_limits, symbolic=True, with_bad=with_bad, salt=salt,
                                       hog_limits=L._hog(limits), run_kwargs={"execution_id": salt + "-again"})
        resub = [sub for sub in lab2.submissions if sub[0].endswith(".leaf") and sub[1] == hit.call_node.task_hash + "x"]
        failing_args = hit.call_node.args_hash
        resub = [sub for sub in lab2.submissions if sub[0].endswith(".leaf") and sub[2] == failing_args]
        if not resub:
            return "in a second execution the failed call leaf(...) was not handed to an executor again (outcome %r)" % (outcome2[0],)
        pickle_limit = P.unpicklable_outcome(spec, outcome2)
        if not pickle_limit and (outcome2[0] != "error" or str(outcome2[1]) != str(err)):
            return "second execution ended with %r instead of raising the same error" % (outcome2,)
    return None


def c12_propagation(k: int) -> bool:
    """
    post: _
    """
    def body():
        n, first, early, form, mid, with_bad, menu, fixed = SL()
        spec = L.pick_case(n, first, menu, fixed)
        mid_limits = ["r"] if mid else None
        limits, leaf_limits, _, _ = L.symbolic_limits(form)

        def run():
            backend = P.shared_backend()
            salt = P.new_salt()
            lab, outcome, _ = P.run_case(spec, choose, limits, leaf_limits, mid_limits, early=early, symbolic=True,
                                         with_bad=int(with_bad), salt=salt, hog_limits=L._hog(limits),
                                         run_kwargs={"execution_id": salt})
            return check_c12(lab, outcome, spec, int(with_bad), salt, backend, choose, limits, leaf_limits, mid_limits) is None
        return native(run)
    return guard(body, k=k)


# ---------------------------------------------------------------------------------------------
KINDS = ["value", "error_value", "invalid_file", "none"]
TYPES = [CacheResult.MISS, CacheResult.CSE, CacheResult.SINGLE, CacheResult.ULTIMATE]


def _get_cache_case(kind_i, type_i):
    """Real Scheduler._get_cache on a real Job with check_cache stubbed."""
    import os
    import tempfile
    from redun import File, Scheduler, task
    s = _kernel_sched()
    kind, ctype = KINDS[kind_i], TYPES[type_i]
    if kind == "value":
        result = 42
    elif kind == "error_value":
        result = RS.ErrorValue(ValueError("recorded failure"))
    elif kind == "invalid_file":
        d = tempfile.mkdtemp()
        f = File(os.path.join(d, "x.txt"))
        f.write("a")
        result = [File(f.path)]
        result[0].hash  # the hash as it would have been recorded (File hashes are computed lazily)
        f.write("changed")  # the recorded hash no longer matches the file system
    else:
        result = None
    if ctype == CacheResult.MISS:
        result = None
    s.backend.check_cache = lambda *a, **k: (result, "callhash" if ctype != CacheResult.MISS else None, ctype)
    t = P.leaf
    job = RS.Job(t, t("k", 1), execution=RS.Execution("kernel"))
    job.eval_hash, job.args_hash = "e", "a"
    got, cached, call_hash = s._get_cache(job)
    if ctype == CacheResult.MISS:
        want_cached = False
    elif ctype == CacheResult.CSE:
        want_cached = True
    elif kind == "error_value":
        want_cached = False  # an error recorded in the backend is never replayed
    elif kind == "invalid_file":
        want_cached = False
    else:
        want_cached = True
    if cached != want_cached:
        return False, "_get_cache with a %s result of cache type %s: is_cached=%s, expected %s" % (kind, ctype.name, cached, want_cached)
    if not cached and (got is not None or call_hash is not None):
        return False, "a miss must not leak a result (%r, %r)" % (got, call_hash)
    return True, "ok"


_KS = {}


def _kernel_sched():
    if "s" not in _KS:
        from redun import Scheduler
        s = Scheduler()
        s.load()
        _KS["s"] = s
    return _KS["s"]


def c12_get_cache(k: int) -> bool:
    """
    post: _
    """
    def body():
        a, b = choose(len(KINDS), "kind"), choose(len(TYPES), "cache_type")
        return native(lambda: _get_cache_case(a, b)[0])
    return guard(body, k=k)


# ---------------------------------------------------------------------------------------------
# histories of executions of one call whose body succeeds or fails depending on the environment
from redun import task as _task  # noqa: E402

_FLAKY = {"fail": False, "calls": 0}


@_task(name="flaky", namespace=P.NS, version="1", check_valid="shallow")
def flaky(salt):
    _FLAKY["calls"] += 1
    if _FLAKY["fail"]:
        raise ConnectionError("down")
    return ("ok", salt)


@_task(name="flaky_full", namespace=P.NS, version="1")
def flaky_full(salt):
    _FLAKY["calls"] += 1
    if _FLAKY["fail"]:
        raise ConnectionError("down")
    return ("ok", salt)


HSTEPS = [("ok", True), ("fail", True), ("ok", False), ("fail", False)]


FID_STALE = "repeated-identical-failure-keeps-old-call-node-timestamp"


def _history(steps, shallow, tolerate=False):
    """Successive executions of the same call on one backend; each step: (environment ok/fail, backend cache on/off).
    Returns (ok, detail, finding id or None).  tolerate: the listed finding's class is accepted."""
    from redun import Scheduler
    import logging
    logging.disable(logging.CRITICAL)
    s = Scheduler()
    s.load()
    t = flaky if shallow else flaky_full
    salt = P.new_salt()
    last_failed = False
    had_success = False
    failed_before_last_success = False  # a failure was recorded, then a success: a later identical failure re-uses the old record
    had_failure = False
    trace = []
    for mode, cache in steps:
        _FLAKY["fail"] = (mode == "fail")
        before = _FLAKY["calls"]
        try:
            out = ("ok", s.run(t(salt), cache=cache))
        except Exception as e:
            out = ("error", e)
        ran = _FLAKY["calls"] - before
        trace.append((mode, cache, out[0], ran))
        # shallow (ultimate-reduction) lookups use the most recent record of the call, so a call whose latest execution
        # failed is executed again; with full checking an older successful single-reduction entry may legitimately be
        # replayed (tasks are assumed deterministic) - what is never replayed is the failure itself
        must_run = (not cache) or not had_success or (shallow and last_failed)
        listed = bool(cache and had_success and shallow and last_failed and failed_before_last_success and ran == 0)
        if must_run and ran != 1 and not (listed and tolerate):
            return False, "history %r: the body was %s although %s" % (
                trace, "not executed" if ran == 0 else "executed %d times" % ran,
                "the previous execution of this call failed" if last_failed else "nothing could be replayed"), (
                FID_STALE if listed else None)
        if ran:
            if mode == "fail" and not (out[0] == "error" and isinstance(out[1], ConnectionError) and str(out[1]) == "down"):
                return False, "history %r: the body raised ConnectionError('down') but run gave %r" % (trace, out), None
            if mode == "ok" and out != ("ok", ("ok", salt)):
                return False, "history %r: run gave %r" % (trace, out), None
            last_failed = (mode == "fail")
            if mode == "ok":
                had_success = True
                failed_before_last_success = had_failure
            else:
                had_failure = True
        elif out != ("ok", ("ok", salt)):
            return False, "history %r: replay produced %r" % (trace, out), None
    return True, "ok", None


def c12_history(k: int) -> bool:
    """
    post: _
    """
    def body():
        n, shallow = SL()
        steps = [HSTEPS[choose(len(HSTEPS), "step")] for _ in range(n)]
        tol = excluded(FID_STALE)
        return native(lambda: _history(steps, bool(shallow), tol)[0])
    return guard(body, k=k)


ONEFAIL3 = [B[0], B[3], B[1]]  # one uncaught failing leaf among three
ONEFAIL_UNPICK = [B[0], (4, 1, 0, 4), B[1]]  # the failing leaf raises an error that cannot be pickled
TWOFAIL = [B[3], (3, 1, 0, 0), B[0]]
_Q = [(3, 0, 0, 0, 0, 0, 4, ONEFAIL3), (3, 0, 0, 0, 1, 0, 4, ONEFAIL3), (3, 0, 0, 0, 0, 0, 4, TWOFAIL), (3, 0, 0, 0, 0, 0, 4, ONEFAIL_UNPICK),
      (3, 0, 0, 0, 0, 1, 4, ONEFAIL3), (3, 3, 0, 0, 0, 0, L.NQ, None), (3, 2, 0, 1, 1, 0, L.NQ, None)]
_T = _Q + [(3, 0, 1, 1, 0, 0, 4, ONEFAIL3)] + [(3, f, 0, form, m, 0, len(B), None) for f in range(len(B)) for form in (0, 2) for m in (0, 1)] + [
    (3, 0, e, 0, 1, 0, 4, ONEFAIL3) for e in (1, 2)] + [(4, 0, 0, 0, 0, 0, 4, [B[0], B[3], B[1], B[1]])]
def c12_reuse(k: int) -> bool:
    """
    post: _
    """
    def body():
        from vp.harness import reuse as R
        kind_i = SL()
        second_i = choose(len(R.SECOND), "second_use")
        form_i = choose(len(R.FORMS), "form")
        return native(lambda: R.run_case(kind_i, second_i, form_i)[0])
    return guard(body, k=k)


CONDITIONS = [
    Condition(c12_reuse, slices=[0, 2, 4], timeout=200,
              bounds="slice = kind of the failing task (plain / cache_scope NONE / async def); the failing call is used in "
                     "catch(ok(x), ...) and reached a second time - same expression object or fresh equal call - in a solver-chosen "
                     "later position (cond branch caught / uncaught, second element of seq, follow-up task, same sweep); stock "
                     "scheduler and executors: an uncaught second use makes run raise the same error, every job of the failing call "
                     "is recorded FAILED with an end time"),
    Condition(c12_propagation, slices=_Q, thorough_slices=_T, timeout=300, thorough_timeout=2400, bounds=L.CONDITIONS[0].bounds),
    Condition(c12_history, slices=[(3, 1), (3, 0)], thorough_slices=[(4, 1), (4, 0)], timeout=200, thorough_timeout=1200,
              bounds="slice = (executions, check_valid shallow?): every history of executions of one call, each with the body "
                     "succeeding or failing and the backend cache on or off; after a failed execution the body runs again"),
    Condition(c12_get_cache, timeout=120, bounds="result kind in %r x cache type in MISS/CSE/SINGLE/ULTIMATE" % (KINDS,)),
]


def replay(cond, args, extra):
    if cond == "c12_reuse":
        from vp.harness import reuse as R
        ch = [c[1] for c in extra["choices"]]
        ok, detail = R.run_case(extra["slice"], ch[0], ch[1])
        return (not ok), detail, None
    if cond == "c12_history":
        n, shallow = extra["slice"]
        steps = [HSTEPS[c[1]] for c in extra["choices"]][:n]
        ok, detail, fid = _history(steps, bool(shallow))
        return (not ok), detail, fid
    if cond == "c12_get_cache":
        ch = [c[1] for c in extra["choices"]]
        ok, detail = _get_cache_case(ch[0], ch[1])
        return (not ok), detail, None
    items = list(extra["choices"])
    pos = [0]

    def nxt():
        v = items[pos[0]]
        pos[0] += 1
        return v[1]
    n, first, early, form, mid, with_bad, menu, fixed = extra["slice"]
    spec = [tuple(b) for b in fixed] if fixed is not None else [B[first]] + [B[nxt()] for _ in range(n - 1)]
    mid_limits = ["r"] if mid else None
    if form == 2:
        limits, leaf_limits = {}, ["r"]
    elif form == 1:
        limits, leaf_limits = {"r": nxt()}, ["r"]
    else:
        limit = nxt()
        limits, leaf_limits = {"r": limit}, {"r": nxt()}
    pick = lambda m, label: min(nxt(), m - 1) if pos[0] < len(items) else 0
    from redun import Scheduler
    s0 = Scheduler()
    s0.load()
    backend = s0.backend
    salt = P.new_salt()
    lab, outcome, _ = P.run_case(spec, pick, limits, leaf_limits, mid_limits, early=early, symbolic=False, with_bad=int(with_bad),
                                 salt=salt, backend=backend, hog_limits=L._hog(limits), run_kwargs={"execution_id": salt})
    P._STATE["backend"] = backend  # the second execution of check_c12 uses the same backend
    v = check_c12(lab, outcome, spec, int(with_bad), salt, backend, pick, limits, leaf_limits, mid_limits)
    desc = "branches %r, limits %r, leaf demand %r, mid demand %r" % (spec, limits, leaf_limits, mid_limits)
    if v:
        return True, desc + ": " + v, None
    return False, desc + ": failure propagated and recorded"
