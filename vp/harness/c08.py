"""C08 — Resource limits are never exceeded (and C09's sibling: both use the SchedLab, stub S6).

Real code: the whole Scheduler (run / _process_events / evaluate / _exec_job_main_thread / _done_job_main_thread /
_reject_job_main_thread / _check_jobs_pending_limits / Job.collapse / catch ...) with the real in-memory SQLite backend,
executed natively; the resource arithmetic (_is_job_within_limits, _consume_resources, _release_resources, _add_limits)
and the monitors are executed symbolically: the configured limit and the per-job demand are symbolic integers, the
workflow shape and the completion schedule are solver choice variables.
"""
from crosshair.tracers import ResumedTracing

from vp.core import SL, Condition, assume, choose, fresh, guard, native
from vp.harness import schedprog as P
from vp.stubs.schedlab import install_symbolic_arithmetic

PROPERTY = "C08"
FUNCTIONS = ["redun.scheduler.Scheduler._is_job_within_limits", "Scheduler._consume_resources", "Scheduler._release_resources",
             "Scheduler._add_limits", "Scheduler._check_jobs_pending_limits", "Scheduler._exec_job_main_thread",
             "Scheduler._done_job_main_thread", "Scheduler._reject_job_main_thread", "Scheduler._process_events",
             "redun.scheduler.Job.get_limits", "redun.scheduler.Job.collapse", "redun.scheduler.catch"]
ASSUMPTIONS = [
    "S6 SchedLab: executors replaced by a controlled executor that reports each submitted job exactly once, at a "
    "solver-chosen later point (late mode: when the event queue is empty; early mode: also ahead of queued events); real "
    "thread/process pools and their pickling are outside",
    "workflow template: main -> n branches mid(i) -> leaf(x); per branch the solver chooses among %r; leaf demand {'r': count} "
    "or ['r'], optionally mid demands ['r'] too, optionally one branch with an unknown executor; n = 3 (quick) / 4 (thorough)",
    "limit: symbolic int >= 1 (or unconfigured = 1); count: symbolic int with 1 <= count <= limit",
    "two-resource template: main -> n leaves, each demanding a solver-chosen combination of the resources a and b (list form in "
    "both orders, dict form, nothing); limits of a and b symbolic ints >= 1",
]

# per-branch menu: (x, fail, caught, nocache)
BRANCH = [(0, 0, 0, 0), (1, 0, 0, 0), (1, 1, 1, 0), (2, 1, 0, 0), (0, 0, 0, 1), (5, 0, 0, 3), (1, 0, 0, 2), (4, 1, 1, 4)]
NQ = 4  # the first NQ menu entries are used by the quick tier
ASSUMPTIONS[1] = ASSUMPTIONS[1] % (BRANCH,)


def install():
    install_symbolic_arithmetic()


def pick_case(n, first, menu, fixed=None):
    """The workflow shape, chosen by the solver (or fixed by the slice)."""
    if fixed is not None:
        return [tuple(b) for b in fixed]
    return [BRANCH[first]] + [BRANCH[choose(menu, "branch")] for _ in range(n - 1)]


def symbolic_limits(form):
    """-> (configured limits, leaf demand, limit, count); the hog leaf (mode 3) demands the whole limit."""
    if form == 2:
        return {}, ["r"], None, None
    limit = fresh(int, "limit")
    assume(limit >= 1)
    if form == 1:
        return {"r": limit}, ["r"], limit, 1
    count = fresh(int, "count")
    assume(1 <= count)
    assume(count <= limit)
    return {"r": limit}, {"r": count}, limit, count


def _hog(limits):
    return {"r": limits["r"]} if "r" in limits else ["r"]


def check_c08(lab, outcome):
    """-> None or a description of the violation."""
    if lab.violations:
        return lab.violations[0]
    if outcome[0] == "ok":
        with ResumedTracing():
            used = lab.sched.limits_used["r"]
            if used != 0:
                return "run finished but the scheduler still accounts %r unit(s) of 'r' in use" % (used,)
    return None


def c08_limits(k: int) -> bool:
    """
    post: _
    """
    def body():
        n, first, early, form, mid, with_bad, menu, fixed = SL()
        spec = pick_case(n, first, menu, fixed)
        mid_limits = ["r"] if mid else None
        limits, leaf_limits, _, _ = symbolic_limits(form)

        def run():
            lab, outcome, salt = P.run_case(spec, choose, limits, leaf_limits, mid_limits, early=early, symbolic=True,
                                            with_bad=int(with_bad), hog_limits=_hog(limits))
            return check_c08(lab, outcome) is None
        return native(run)
    return guard(body, k=k)


# ---- second template: two resources -------------------------------------------------------------------------------
from redun import task  # noqa: E402

DEMANDS = [["a"], ["b"], ["a", "b"], ["b", "a"], {"a": 1, "b": 1}, []]


@task(name="tr_leaf", namespace=P.NS, version="1", cache=False)
def tr_leaf(salt, i):
    return i


@task(name="tr_main", namespace=P.NS, version="1", cache=False)
def tr_main(salt, spec):
    return [tr_leaf.options(limits=DEMANDS[d])(salt, i) for i, d in enumerate(spec)]


_TRN = [0]


def two_resource_case(spec, pick, la, lb, early, symbolic):
    """n leaves, each demanding a solver-chosen combination of the resources a and b.  Returns None or a description."""
    import os
    from vp.stubs.schedlab import Lab
    _TRN[0] += 1
    lab = Lab(pick, limits={"a": la, "b": lb}, early=early, symbolic=symbolic, resources=("a", "b"), fifo_tasks=("tr_main",))
    outcome = lab.run(tr_main("t%d_%d" % (os.getpid(), _TRN[0]), list(spec)))
    if lab.violations:
        return lab.violations[0]
    if outcome[0] == "deadlock":
        return None  # termination is C09's subject
    if outcome[0] != "ok" or list(outcome[1]) != list(range(len(spec))):
        return "run ended with %r" % (outcome,)

    def end():
        for r in ("a", "b"):
            if lab.sched.limits_used[r] != 0:
                return "run finished but the scheduler still accounts %r unit(s) of %r in use" % (lab.sched.limits_used[r], r)
        return None
    if symbolic:
        with ResumedTracing():
            return end()
    return end()


def c08_two_resources(k: int) -> bool:
    """
    post: _
    """
    def body():
        n, first, early, menu = SL()
        spec = [first] + [choose(menu, "demand") for _ in range(n - 1)]
        la = fresh(int, "limit_a")
        lb = fresh(int, "limit_b")
        assume(la >= 1)
        assume(lb >= 1)
        return native(lambda: two_resource_case(spec, choose, la, lb, early, True) is None)
    return guard(body, k=k)


_NB = len(BRANCH)
# slice = (branches, first branch, early mode, limit form, mid demands too, unknown-executor branch, menu size)
DUP4 = [(0, 0, 0, 0), (1, 0, 0, 0), (1, 0, 0, 0), (2, 0, 0, 0)]  # four leaves, two of them the same call
ABC3 = [(0, 0, 0, 0), (1, 0, 0, 0), (2, 0, 0, 0)]  # three distinct leaves (used with early mode 2)
HET4 = [(0, 0, 0, 0), (1, 0, 0, 0), (5, 0, 0, 3), (2, 0, 0, 0)]  # two small jobs, one that needs the whole limit, a third small one
ALLFAIL3 = [(0, 1, 0, 0), (1, 1, 0, 0), (2, 1, 0, 0)]  # three failing leaves (used under catch_all)
FAIL4 = [(0, 0, 0, 0), (1, 1, 1, 0), (1, 0, 0, 0), (2, 1, 1, 0)]
WRAPPED3 = [(1, 0, 0, 5), (1, 0, 0, 5), (0, 0, 0, 0)]  # the same NON-LEAF call (mid -> leaf, both may demand 'r') reached from two parents
_Q = [(3, f, 0, 0, m, 0, NQ, None) for f in range(NQ) for m in (0, 1)] + [(2, 0, 1, 0, 1, 0, NQ, [BRANCH[1], BRANCH[1]]), (2, 0, 1, 0, 1, 0, NQ, [BRANCH[2], BRANCH[0]])] \
    + [(2, 1, 0, 2, 1, 1, NQ, None), (2, 2, 0, 1, 0, 1, NQ, None), (4, 0, 0, 0, 0, 0, NQ, DUP4), (4, 0, 0, 0, 1, 0, NQ, FAIL4),
       (3, 0, 2, 1, 0, 0, NQ, ABC3), (4, 0, 0, 0, 0, 0, NQ, HET4), (3, 0, 0, 0, 0, 2, NQ, ALLFAIL3), (3, 0, 0, 0, 0, 2, NQ, None),
       (3, 0, 0, 1, 1, 0, NQ, WRAPPED3), (3, 0, 0, 0, 1, 0, NQ, WRAPPED3)]
_T = [(3, f, 0, form, m, b, _NB, None) for f in range(_NB) for form in (0, 1, 2) for m in (0, 1) for b in (0, 1)] \
    + [(3, f, 1, 0, m, 0, NQ, None) for f in range(NQ) for m in (0, 1)] + [(4, f, 0, 0, 1, 0, NQ, None) for f in range(NQ)] \
    + [(4, 0, 1, 0, 0, 0, NQ, DUP4), (4, 0, 1, 0, 1, 0, NQ, FAIL4), (3, 0, 2, 0, 0, 0, NQ, ABC3), (3, 0, 2, 0, 1, 0, NQ, ABC3),
       (4, 0, 0, 0, 1, 0, NQ, HET4), (4, 0, 1, 0, 0, 0, NQ, HET4), (3, 0, 1, 1, 1, 0, NQ, WRAPPED3), (3, 0, 0, 1, 0, 0, NQ, WRAPPED3)] + [(3, f, 0, 0, m, 2, _NB, None) for f in range(_NB) for m in (0, 1)]
CONDITIONS = [
    Condition(c08_two_resources, slices=[(3, d, 0, 4) for d in range(5)],
              thorough_slices=[(3, d, e, 6) for d in range(5) for e in (0, 1)] + [(4, d, 0, 4) for d in (2, 3)],
              timeout=300, thorough_timeout=1500,
              bounds="slice = (leaves, demand of the first leaf as index into %r, early mode, size of the demand menu); the other leaves' demands and the "
                     "completion schedule solver-chosen; the limits of a and b are symbolic ints >= 1" % (DEMANDS,)),
    Condition(c08_limits, slices=_Q, thorough_slices=_T, timeout=300, thorough_timeout=2400,
              bounds="slice = (branches, first branch, early-completion mode, limit form 0 dict demand/1 list demand/2 "
                     "unconfigured limit, mid task demands 'r' too, extra template 0 none / 1 a branch with an unknown executor / 2 all branches under one catch_all, size of the branch menu, fully fixed branch list or None); in late mode the trivial "
                     "mid / main / recover jobs complete first in submission order and only leaf completions are scheduled; "
                     "remaining branches and the completion schedule chosen by the solver; limit and count symbolic integers"),
]


def replay_two(extra):
    items = list(extra["choices"])
    pos = [0]

    def nxt():
        v = items[pos[0]]
        pos[0] += 1
        return v[1]
    n, first, early, menu = extra["slice"]
    spec = [first] + [nxt() for _ in range(n - 1)]
    la, lb = nxt(), nxt()
    pick = lambda m, label: min(nxt(), m - 1) if pos[0] < len(items) else 0
    v = two_resource_case(spec, pick, la, lb, early, False)
    return (v is not None), "leaves demanding %r, limits a=%r b=%r: %s" % ([DEMANDS[d] for d in spec], la, lb, v), None


def replay_case(extra):
    """Rebuild the run from recorded choices with concrete limit/count; returns (lab, outcome, description)."""
    items = list(extra["choices"])
    pos = [0]

    def nxt(label=None):
        v = items[pos[0]]
        pos[0] += 1
        return v[1]
    n, first, early, form, mid, with_bad, menu, fixed = extra["slice"]
    spec = [tuple(b) for b in fixed] if fixed is not None else [BRANCH[first]] + [BRANCH[nxt()] for _ in range(n - 1)]
    mid_limits = ["r"] if mid else None
    with_bad = int(with_bad)
    if form == 2:
        limits, leaf_limits = {}, ["r"]
    elif form == 1:
        limits, leaf_limits = {"r": nxt()}, ["r"]
    else:
        limit = nxt()
        limits, leaf_limits = {"r": limit}, {"r": nxt()}
    pick = lambda m, label: min(nxt(), m - 1) if pos[0] < len(items) else 0
    lab, outcome, salt = P.run_case(spec, pick, limits, leaf_limits, mid_limits, early=early, symbolic=False,
                                    with_bad=with_bad, backend=None, hog_limits=_hog(limits))
    desc = "branches %r, limits %r, leaf demand %r, mid demand %r, unknown-executor branch %s, %s completions" % (
        spec, limits, leaf_limits, mid_limits, with_bad, "early" if early else "late")
    return lab, outcome, desc, spec, with_bad


def replay(cond, args, extra):
    if cond == "c08_two_resources":
        return replay_two(extra)
    lab, outcome, desc, spec, with_bad = replay_case(extra)
    v = lab.violations[0] if lab.violations else None
    if v is None and outcome[0] == "ok" and lab.sched.limits_used["r"] != 0:
        v = "run finished with %r unit(s) still accounted" % lab.sched.limits_used["r"]
    if v:
        fid = "double-release-when-result-evaluation-fails" if "accounts" in v or "held by" in v else None
        return True, "%s: %s" % (desc, v), fid
    return False, desc + ": limits respected (outcome %s)" % outcome[0]
