"""C37 — The task registry stays consistent.

Real code executed symbolically: redun.task.TaskRegistry.add / rename / get / task_hashes / _decrement_hash_count /
__iter__ on a fresh registry with Task objects whose *hash is a solver-chosen token* (the solver decides which
definitions share a hash - the case the counting logic exists for); and the real `task` / `wraps_task` decorators
(recursive_rename) on solver-chosen definition sequences.
"""
import importlib

from vp.core import SL, Condition, assume, choose, fresh, guard, native

T = importlib.import_module("redun.task")

PROPERTY = "C37"
FUNCTIONS = ["redun.task.TaskRegistry.add", "redun.task.TaskRegistry.rename", "redun.task.TaskRegistry.get",
             "redun.task.TaskRegistry.task_hashes", "redun.task.TaskRegistry._decrement_hash_count",
             "redun.task.TaskRegistry.__iter__", "redun.task.wraps_task (create_tasks / recursive_rename)",
             "redun.task.task (decorator registration)"]
ASSUMPTIONS = [
    "c37_counts: Task objects are built with Task.__new__ plus name/namespace/hash attributes (hash = one of 3 solver-chosen tokens), "
    "so that no pickling sits on the symbolic path; sequences of <= 4 (quick) / 5 (thorough) operations over names f, g",
    "c37_wraps: real decorators on a private namespace of the global registry; bodies differ by a version string",
]

NAMES = ["f", "g"]


NTOK = 3


def _token():
    # a hash token from a domain of NTOK values chosen by the solver (a symbolic int used as a key of the registry's
    # real dict would be concretised by CPython's hashing anyway); real hashes are non-empty strings, hence truthy
    return "h%d" % choose(NTOK, "hash")


def _mk(name, namespace, h):
    t = T.Task.__new__(T.Task)
    t.name = name
    t.namespace = namespace
    t.hash = h
    t._task_options_base = {}
    t._task_options_override = {}
    return t


OPS = ["define", "redefine_same_hash", "rename_to_w", "wrap", "get_by_hash"]


def _invariant(reg, model):
    tasks = list(reg)
    hashes = [t.hash for t in tasks]
    # the set of current hashes equals the hashes of the tasks held
    th = reg.task_hashes
    if not (all(h in th for h in hashes) and all(any(h == x for x in hashes) for h in th)):
        return False
    # every count is the number of holders (>= 1)
    for h, c in reg._task_hash_counts.items():
        n = 0
        for x in hashes:
            if x == h:
                n += 1
        if c != n or c < 1:
            return False
    # each task is found under its current full name, and nothing else is registered
    if len(tasks) != len(model):
        return False
    for fullname, t in model.items():
        if reg.get(task_name=fullname) is not t or t.fullname != fullname:
            return False
    return True


def c37_counts(k: int) -> bool:
    """
    post: _
    """
    def body():
        nsteps, first = SL()
        reg = T.TaskRegistry()
        model = {}
        ops = list(first)
        for step in range(nsteps):
            op = OPS[ops[step]] if step < len(ops) else OPS[choose(len(OPS), "op")]
            name = NAMES[choose(len(NAMES), "name")]
            full = "ns." + name
            if op == "define":
                t = _mk(name, "ns", _token())
                reg.add(t)
                model[full] = t
            elif op == "redefine_same_hash":
                if full in model:
                    t = _mk(name, "ns", model[full].hash)
                    reg.add(t)
                    model[full] = t
            elif op == "rename_to_w":
                if full in model:
                    t = reg.rename(full, new_namespace="ns.w", new_name=name)
                    if t is not model[full]:
                        return False
                    del model[full]
                    model["ns.w." + name] = t
            elif op == "wrap":
                # what wraps_task does: hide the inner task under <namespace>.<wrapper>, then define the wrapper
                # under the visible name
                if full in model:
                    inner = reg.rename(full, new_namespace="ns.w", new_name=name)
                    del model[full]
                    model["ns.w." + name] = inner
                    w = _mk(name, "ns", _token())
                    reg.add(w)
                    model[full] = w
            else:
                if full in model:
                    found = reg.get(hash=model[full].hash)
                    if found is None or found.hash != model[full].hash:
                        return False
            if not _invariant(reg, model):
                return False
        return True
    return guard(body, k=k)


# ---------------------------------------------------------------------------------------------
_COUNTER = [0]
WOPS = ["define_plain", "define_wrapped", "define_double_wrapped"]


def _run_wraps(seq):
    """seq: list of (op, version).  Everything concrete: run natively on the real decorators."""
    _COUNTER[0] += 1
    ns = "vp_c37_%d" % _COUNTER[0]
    reg = T.get_task_registry()
    before = set(t.fullname for t in reg)

    def deco(name):
        @T.wraps_task(wrapper_name=name)
        def wrapper(inner):
            def run(*a, **k):
                return inner.func(*a, **k)
            return run
        return wrapper

    expect = {}
    for op, version in seq:
        def f():
            return 0
        f.__name__ = "f"
        f.__qualname__ = "f"
        if op == "define_plain":
            t = T.task(name="f", namespace=ns, version=str(version))(f)
            expect = dict(expect)  # tasks hidden by earlier wraps stay registered under their inner names
            expect[ns + ".f"] = t
        elif op == "define_wrapped":
            t = deco("w1")(T.task(name="f", namespace=ns, version=str(version))(f))
            inner = reg.get(task_name=ns + ".w1.f")
            expect = dict(expect)
            expect[ns + ".f"] = t
            expect[ns + ".w1.f"] = inner
            if inner is None or inner.version != str(version) or t.get_task_option("wrapped_task") != ns + ".w1.f":
                return False, "wrapped: visible %r inner %r" % (t, inner)
        else:
            t = deco("w2")(deco("w1")(T.task(name="f", namespace=ns, version=str(version))(f)))
            expect = dict(expect)
            expect[ns + ".f"] = t
            mid = reg.get(task_name=ns + ".w2.f")
            inner = reg.get(task_name=ns + ".w1.w2.f")
            if mid is None or inner is None or inner.version != str(version):
                return False, "double wrap: names %r" % sorted(x.fullname for x in reg if x.fullname.startswith(ns))
            expect.pop(ns + ".w1.f", None)  # the freshly hidden w1 layer moved one level further in
            expect[ns + ".w2.f"] = mid
            expect[ns + ".w1.w2.f"] = inner
        # registry-wide consistency after every definition
        held = list(reg)
        if reg.task_hashes != {x.hash for x in held}:
            return False, "task_hashes %d entries != hashes of %d tasks held after %r" % (len(reg.task_hashes), len(held), seq)
        for fullname, tk in expect.items():
            if reg.get(task_name=fullname) is not tk or tk.fullname != fullname:
                return False, "%s does not resolve to its task after %r" % (fullname, seq)
        if reg.get(task_name=ns + ".f") is not t or t.name != "f" or t.namespace != ns:
            return False, "visible name lost"
    extra = {x.fullname for x in reg if x.fullname.startswith(ns + ".")} - set(expect)
    if extra:
        return False, "unexpected names %r" % extra
    return True, "ok"


def c37_wraps(k: int) -> bool:
    """
    post: _
    """
    def body():
        n = SL()
        seq = [(WOPS[choose(len(WOPS), "wop")], choose(2, "version")) for _ in range(n)]
        return native(lambda: _run_wraps(seq)[0])
    return guard(body, k=k)


_NO = len(OPS)
CONDITIONS = [
    Condition(c37_counts, slices=[(3, (a,)) for a in range(_NO)], thorough_slices=[(4, (a, b)) for a in range(_NO) for b in range(_NO)],
              timeout=170, thorough_timeout=1200,
              bounds="slice = (number of operations, fixed first operations); operations %r on names %r chosen by the solver; "
                     "hash tokens from a 3-value domain (so that definitions can share a hash)" % (OPS, NAMES)),
    Condition(c37_wraps, slices=[1, 2, 3], thorough_slices=[1, 2, 3, 4], timeout=170, thorough_timeout=1200,
              bounds="n = slice successive definitions of ns.f, each plain / wrapped / double-wrapped with body version 0 or 1, "
                     "through the real task and wraps_task decorators"),
]


def replay(cond, args, extra):
    it = iter(extra["choices"])
    nx = lambda: next(it)[1]
    if cond == "c37_wraps":
        n = extra["slice"]
        seq = [(WOPS[nx()], nx()) for _ in range(n)]
        ok, detail = _run_wraps(seq)
        return (not ok), "definition sequence %r: %s" % (seq, detail), None
    nsteps, first = extra["slice"]
    reg = T.TaskRegistry()
    model = {}
    ops = list(first)
    trace = []
    for step in range(nsteps):
        op = OPS[ops[step]] if step < len(ops) else OPS[nx()]
        name = NAMES[nx()]
        full = "ns." + name
        trace.append((op, name))
        try:
            if op == "define":
                h = "h%d" % nx()
                t = _mk(name, "ns", h)
                reg.add(t)
                model[full] = t
                trace[-1] += (h,)
            elif op == "redefine_same_hash" and full in model:
                t = _mk(name, "ns", model[full].hash)
                reg.add(t)
                model[full] = t
            elif op == "rename_to_w" and full in model:
                t = reg.rename(full, new_namespace="ns.w", new_name=name)
                del model[full]
                model["ns.w." + name] = t
            elif op == "wrap" and full in model:
                inner = reg.rename(full, new_namespace="ns.w", new_name=name)
                del model[full]
                model["ns.w." + name] = inner
                h = "h%d" % nx()
                w = _mk(name, "ns", h)
                reg.add(w)
                model[full] = w
                trace[-1] += (h,)
            elif op == "get_by_hash" and full in model:
                found = reg.get(hash=model[full].hash)
                if found is None or found.hash != model[full].hash:
                    return True, "get(hash=) after %r" % (trace,), None
            ok = _invariant(reg, model)
        except AssertionError as e:
            return True, "after %r: assertion in the registry: %s" % (trace, e), None
        if not ok:
            return True, "after %r: task_hashes=%r counts=%r tasks=%r" % (
                trace, reg.task_hashes, dict(reg._task_hash_counts), [(t.fullname, t.hash) for t in reg]), None
    return False, "%r ok" % (trace,)
