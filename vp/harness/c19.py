"""C19 — Nested values are traversed and rebuilt faithfully.

Real code executed symbolically (no stubs): redun.utils.iter_nested_value_children, iter_nested_value,
map_nested_value.  The container kind of every node is a solver choice variable; leaves and dict keys are
symbolic ints (so the solver also decides which set elements / dict keys coincide).
"""
import collections
import dataclasses
import importlib
from typing import Any

from vp.core import SL, Condition, choose, guard

U = importlib.import_module("redun.utils")

PROPERTY = "C19"
FUNCTIONS = ["redun.utils.map_nested_value", "redun.utils.iter_nested_value", "redun.utils.iter_nested_value_children"]
ASSUMPTIONS = [
    "nesting depth <= 2 (quick) / 3 (thorough), width <= 2; leaves are ints; the mapped function is x -> ('m', x) (injective)",
    "the scheduler-level consequence (expressions inside containers get evaluated) needs whole runs and is outside",
]

NT = collections.namedtuple("NT", ["x", "y"])


@dataclasses.dataclass
class DC:
    x: Any
    y: Any = dataclasses.field(init=False, default=None)


@dataclasses.dataclass(frozen=True)
class FDC:
    x: Any
    z: Any = 0


class MyList(list):
    """A container subclass: a leaf by design."""


KINDS = ["leaf", "list", "tuple", "namedtuple", "set", "dict", "dataclass", "frozen_dataclass", "list_subclass",
         "empty_list", "empty_dict", "singleton_tuple"]
# (a frozen dataclass as set element / dict key is left out: CrossHair's patched hash() makes a Python-level __hash__
# return a symbolic int, which CPython's set rejects - an engine limitation, not a property of redun)
HASHABLE = ["leaf", "tuple", "namedtuple", "singleton_tuple"]


_CTR = [0]


class Gen:
    """Builds a nested value from a stream of decisions (solver choice variables, or a recorded list on replay)."""

    def __init__(self, pick, mode, first=None):
        self.pick = pick  # pick(n, label) -> int in range(n)
        self.mode = mode  # "full": every child any kind; "one": one complex child per node, the others leaves
        self.first = first  # optionally fixes the kind of the root's first child
        self.ctr = 0

    def leaf(self, hashable):
        # leaves in set-element / dict-key positions take one of two values (the solver decides which coincide);
        # other leaves are distinct ints, because nothing in the code under test can depend on their values
        if hashable:
            return self.pick(2, "key")
        self.ctr += 1
        return 100 + self.ctr

    def children(self, n, depth, flags):
        """n children; flags[i] = must be hashable."""
        if self.mode == "one" and n > 1:
            which = self.pick(n, "complex_child")
            return [self.node(depth if i == which else 0, flags[i]) for i in range(n)]
        return [self.node(depth, flags[i]) for i in range(n)]

    def node(self, depth, hashable=False, kind=None):
        kinds = HASHABLE if hashable else KINDS
        if depth == 0:
            kind = "leaf"
        elif kind is None:
            if self.first is not None:
                kind, self.first = self.first, None
                if kind not in kinds:
                    kind = "leaf"
            else:
                kind = kinds[self.pick(len(kinds), "kind")]
        d = depth - 1
        h = hashable
        if kind == "leaf":
            return self.leaf(hashable)
        if kind == "list":
            return list(self.children(2, d, [h, h]))
        if kind == "tuple":
            return tuple(self.children(2, d, [h, h]))
        if kind == "singleton_tuple":
            return tuple(self.children(1, d, [h]))
        if kind == "namedtuple":
            return NT(*self.children(2, d, [h, h]))
        if kind == "set":
            return set(self.children(2, d, [True, True]))
        if kind == "dict":
            k1, v1, k2, v2 = self.children(4, d, [True, h, True, h])
            return {k1: v1, k2: v2}
        if kind == "dataclass":
            x, y = self.children(2, d, [h, h])
            v = DC(x)
            v.y = y
            return v
        if kind == "frozen_dataclass":
            return FDC(*self.children(2, d, [h, h]))
        if kind == "list_subclass":
            return MyList([self.leaf(False)])
        if kind == "empty_list":
            return []
        return {}


def gen(depth, root_kind=None, mode="full", first=None):
    return Gen(choose, mode, first).node(depth, False, root_kind)


def ref_map(f, v):
    """Reference: the statement, written directly."""
    t = type(v)
    if t is list:
        return [ref_map(f, i) for i in v]
    if t is tuple:
        return tuple(ref_map(f, i) for i in v)
    if t is NT:
        return NT(*[ref_map(f, i) for i in v])
    if t is set:
        return {ref_map(f, i) for i in v}
    if t is dict:
        return {ref_map(f, k): ref_map(f, x) for k, x in v.items()}
    if t is DC:
        r = DC(ref_map(f, v.x))
        r.y = ref_map(f, v.y)
        return r
    if t is FDC:
        return FDC(ref_map(f, v.x), ref_map(f, v.z))
    return f(v)


def ref_leaves(v, out):
    t = type(v)
    if t in (list, tuple, set, NT):
        for i in v:
            ref_leaves(i, out)
    elif t is dict:
        for k, x in v.items():
            ref_leaves(k, out)
            ref_leaves(x, out)
    elif t is DC:
        ref_leaves(v.x, out)
        ref_leaves(v.y, out)
    elif t is FDC:
        ref_leaves(v.x, out)
        ref_leaves(v.z, out)
    else:
        out.append(v)
    return out


def same(a, b):
    """Structural equality including exact types at every node."""
    if type(a) is not type(b):
        return False
    if isinstance(a, (list, tuple)):
        return len(a) == len(b) and all(same(x, y) for x, y in zip(a, b))
    if isinstance(a, set):
        return a == b
    if isinstance(a, dict):
        return a == b and all(same(a[k], b[k]) for k in a)
    if isinstance(a, DC):
        return same(a.x, b.x) and same(a.y, b.y)
    if isinstance(a, FDC):
        return same(a.x, b.x) and same(a.z, b.z)
    return a == b


def _multiset_eq(a, b):
    return len(a) == len(b) and all(_count(a, x) == _count(b, x) for x in a)


def _count(items, x):
    n = 0
    for i in items:
        if type(i) is type(x) and i == x:
            n += 1
    return n


def _check(v):
    called = []

    def f(x):
        called.append(x)
        return ("m", x)

    got = U.map_nested_value(f, v)
    want = ref_map(lambda x: ("m", x), v)
    if not same(got, want):
        return False
    leaves = list(U.iter_nested_value(v))
    # the leaves f was called on are exactly the leaves the iterator yields, and both are the reference leaves
    return _multiset_eq(called, leaves) and _multiset_eq(leaves, ref_leaves(v, []))


def c19_map(k: int) -> bool:
    """
    post: _
    """
    def body():
        depth, root, mode, first = SL()
        return _check(gen(depth, root, mode, first))
    return guard(body, k=k)


def c19_children(k: int) -> bool:
    """
    post: _
    """
    def body():
        # one level: iter_nested_value_children yields each child once, and (True, value) only for non-containers
        v = gen(1)
        ch = list(U.iter_nested_value_children(v))
        t = type(v)
        if t in (list, tuple, set, NT, dict, DC, FDC):
            want = ref_children(v)
            return all(not leaf for leaf, _ in ch) and _multiset_eq([c for _, c in ch], want)
        return len(ch) == 1 and ch[0][0] is True and ch[0][1] is v
    return guard(body, k=k)


def ref_children(v):
    if isinstance(v, dict):
        return list(v.keys()) + list(v.values())
    if isinstance(v, DC):
        return [v.x, v.y]
    if isinstance(v, FDC):
        return [v.x, v.z]
    return list(v)


_ROOTS = [k for k in KINDS if k not in ("leaf", "empty_list", "empty_dict", "list_subclass")]
_Q = [(1, r, "full", None) for r in KINDS] + [(2, r, "one", None) for r in _ROOTS]
_T = [(2, r, "full", f) for r in _ROOTS for f in KINDS] + [(3, r, "one", None) for r in _ROOTS]
CONDITIONS = [
    Condition(c19_map, slices=_Q, thorough_slices=_T, timeout=170, thorough_timeout=1500,
              bounds="slice = (depth, root container kind, mode, kind of the root's first child or None); every node below the "
                     "root is one of %r chosen by the solver (set elements / dict keys among the hashable kinds %r); mode "
                     "'full' = every child may be any kind, 'one' = one complex child per node and leaves otherwise; leaves in "
                     "set-element / dict-key position take one of two solver-chosen values. quick: depth 1 full, depth 2 'one'; "
                     "thorough: depth 2 full, depth 3 'one'" % (KINDS, HASHABLE)),
    Condition(c19_children, timeout=120, bounds="one level of every kind"),
]


# ---------------------------------------------------------------------------------------------
def _replay_gen(depth, it, root_kind=None, mode="full", first=None):
    return Gen(lambda n, label: next(it)[1], mode, first).node(depth, False, root_kind)


def replay(cond, args, extra):
    it = iter(extra["choices"])
    if cond == "c19_map":
        depth, root, mode, first = extra["slice"]
        v = _replay_gen(depth, it, root, mode, first)
        try:
            ok = _check(v)
        except Exception as e:
            return True, "map_nested_value / iter_nested_value raised %s: %s on %r" % (type(e).__name__, e, v), None
        if not ok:
            called = []
            got = U.map_nested_value(lambda x: (called.append(x), ("m", x))[1], v)
            return True, "value %r: mapped %r (expected %r); f called on %r, iterator yields %r" % (
                v, got, ref_map(lambda x: ("m", x), v), called, list(U.iter_nested_value(v))), None
        return False, "%r ok" % (v,)
    v = _replay_gen(1, it)
    ch = list(U.iter_nested_value_children(v))
    if type(v) in (list, tuple, set, NT, dict, DC, FDC):
        bad = not (all(not leaf for leaf, _ in ch) and _multiset_eq([c for _, c in ch], ref_children(v)))
    else:
        bad = not (len(ch) == 1 and ch[0][0] is True)
    return bad, "children of %r: %r" % (v, ch), None
