"""C18 — Expression identity matches the call it denotes.

Real code executed symbolically: TaskExpression / SchedulerExpression / SimpleExpression / ValueExpression ._calc_hash,
Expression.get_hash, the __getstate__/__setstate__ pairs (redun/expression.py), hash_arguments.  Natively: real pickle
round trips and real hashes on solver-chosen expressions.
"""
import importlib
import pickle
import random

from vp.core import SL, Condition, choose, fresh, guard, native
from vp.stubs.common import Tok, install_struct_hash, selftest_struct_hash

E = importlib.import_module("redun.expression")

PROPERTY = "C18"
FUNCTIONS = ["redun.expression.TaskExpression._calc_hash", "redun.expression.SchedulerExpression._calc_hash",
             "redun.expression.SimpleExpression._calc_hash", "redun.expression.ValueExpression._calc_hash",
             "redun.expression.Expression.get_hash", "redun.expression.*.__getstate__/__setstate__",
             "redun.hashing.hash_arguments"]
ASSUMPTIONS = [
    "S2 structural hash; pickle_dumps / hash_bytes inside redun.expression replaced by an order-preserving structural image of "
    "the options dict (pickle bytes are a C boundary); type registry get_hash / serialize / deserialize structural (identity)",
    "<= 2 arguments, <= 2 option keys, <= 1 exported option name, names from small menus; nested expression arguments of depth 1",
    "native condition: real pickle and real SHA on expressions from the same menus",
]

KINDS = ["task", "scheduler", "simple", "value"]
NAMES = {"task": ["ns.f", "ns.g"], "scheduler": ["redun.cond", "redun.catch"], "simple": ["add", "radd", "mul", "getitem"]}


class _Reg:
    def get_hash(self, value, data=None):
        if isinstance(value, Tok):
            return value.h
        if isinstance(value, E.Expression):
            return ("expr", value.get_hash())
        if isinstance(value, dict):
            return ("dict",) + tuple((k, self.get_hash(v)) for k, v in sorted(value.items()))
        if isinstance(value, (list, tuple)):
            return ("seq",) + tuple(self.get_hash(v) for v in value)
        return ("val", value)

    def serialize(self, value):
        return ("ser", value)

    def deserialize(self, type_name, data):
        assert data[0] == "ser"
        return data[1]

    def get_type_name(self, t):
        return t.__name__


_REG = _Reg()
_SYMBOLIC = ("c18_identity", "c18_roundtrip")


def warmup(cond):
    if cond in _SYMBOLIC:
        install_struct_hash()
        E.get_type_registry = lambda: _REG
        E.pickle_dumps = lambda obj: ("pickle", tuple((k, _REG.get_hash(v)) for k, v in obj.items())
                                      if isinstance(obj, dict) else obj)
        E.hash_bytes = lambda b: ("hash_bytes", b)
        import redun.hashing as H
        E.hash_arguments = H.hash_arguments


def self_test(seed):
    return {"struct_hash_pairs": selftest_struct_hash(random.Random(seed), 200)}


def _build(kind, pick, tok, raw=False):
    """Build one expression; returns (expr, description of the call it denotes).  raw: plain values instead of tokens."""
    mk = (lambda x: x) if raw else Tok
    h = (lambda v: v) if raw else (lambda v: v.h)
    if kind == "value":
        v = mk(tok("val"))
        return E.ValueExpression(v), ("value", h(v))
    name = NAMES[kind][pick(len(NAMES[kind]), "name")]
    nargs = pick(3, "nargs")
    args = tuple(mk(tok("arg")) for _ in range(nargs))
    kwargs = {"k": mk(tok("kw"))} if pick(2, "has_kw") else {}
    argd = (tuple(h(a) for a in args), tuple((k, h(v)) for k, v in kwargs.items()))
    if kind == "simple":
        return E.SimpleExpression(name, args, kwargs), ("simple", name, argd)
    opts = {}
    which = pick(4, "options")  # none / a / b / a then b
    if which in (1, 3):
        opts["a"] = mk(tok("opt"))
    if which in (2, 3):
        opts["b"] = mk(tok("opt"))
    optd = tuple(sorted((k, h(v)) for k, v in opts.items()))
    if kind == "scheduler":
        return E.SchedulerExpression(name, args, kwargs, task_options=opts), ("scheduler", name, argd, optd)
    exports = {"a"} if pick(2, "export") else set()
    return E.TaskExpression(name, args, kwargs, task_options=opts, export_options=exports), ("task", name, argd, optd, tuple(exports))


def _sym_tok(label):
    return fresh(int, label)


def c18_identity(k: int) -> bool:
    """
    post: _
    """
    def body():
        k1, k2, fixed_opt = SL()
        e1, d1 = _build(KINDS[k1], _fix(choose, fixed_opt), _sym_tok)
        e2, d2 = _build(KINDS[k2], choose, _sym_tok)
        if excluded_case(e1, e2, d1, d2):
            return True
        if e1.get_hash() == e2.get_hash():
            return d1 == d2
        return True
    return guard(body, k=k)


def _fix(pick, fixed_opt):
    """pick function whose 'options' choice is fixed (partitioning), all others delegated."""
    if fixed_opt is None:
        return pick

    def p(n, label):
        if label == "options":
            return fixed_opt
        return pick(n, label)
    return p


def excluded_case(e1, e2, d1, d2):
    from vp.core import excluded
    if excluded("scheduler-expression-options-not-hashed") and d1[0] == "scheduler" and d2[0] == "scheduler":
        return d1[:3] == d2[:3] and d1[3] != d2[3]
    return False


def _roundtrip_ok(e, d):
    h = e.get_hash()
    e.call_hash = "recorded"
    e._upstreams = ["something"]
    state = e.__getstate__()
    new = type(e).__new__(type(e))
    new.__setstate__(state)
    if new.get_hash() != h:
        return False
    if isinstance(e, E.ValueExpression):
        return new.value is e.value or new.value == e.value
    same = new.args == e.args and new.kwargs == e.kwargs
    if isinstance(e, E.TaskExpression):
        same = same and new.task_name == e.task_name and new._options == e._options and list(new._options) == list(e._options) \
            and new._export_options == e._export_options and new._length == e._length and new.call_hash is None
    else:
        same = same and new.func_name == e.func_name
    # per-run bookkeeping is reset: upstreams point at the expression's own arguments again
    return same and new._upstreams == [new.args, new.kwargs]


def c18_roundtrip(k: int) -> bool:
    """
    post: _
    """
    def body():
        e, d = _build(KINDS[SL()], choose, _sym_tok)
        if isinstance(e, E.TaskExpression) and choose(2, "reverse_option_order"):
            e._options = dict(reversed(list(e._options.items())))
        if isinstance(e, E.TaskExpression):
            e._length = [None, 2][choose(2, "length")]
        return _roundtrip_ok(e, d)
    return guard(body, k=k)


# ---------------------------------------------------------------------------------------------
# native: real pickle, real SHA

def _conc_tok_factory(pick):
    return lambda label: "t%d" % pick(2, label)


def _native_build(pick):
    kind = KINDS[pick(4, "kind")]
    e, d = _build(kind, pick, _conc_tok_factory(pick), raw=True)
    rev = bool(isinstance(e, E.TaskExpression) and pick(2, "reverse_option_order"))
    return e, d, rev


def _native_check(e, d, rev):
    """Real pickle round trip, real SHA."""
    if rev:
        e._options = dict(reversed(list(e._options.items())))
        e._hash = None
    h = e.get_hash()
    if isinstance(e, E.TaskExpression):
        e.call_hash = "recorded-during-a-run"
    new = pickle.loads(pickle.dumps(e))
    if new.get_hash() != h:
        return False, "pickle round trip changes the hash of %r (options %r -> %r)" % (
            e, getattr(e, "_options", None), getattr(new, "_options", None)), None
    if isinstance(e, E.TaskExpression) and (new._options != e._options or new._export_options != e._export_options
                                            or new.call_hash is not None or new.args != e.args or new.kwargs != e.kwargs):
        return False, "pickle round trip changes %r" % (e,), None
    return True, "ok", None


def c18_native(k: int) -> bool:
    """
    post: _
    """
    def body():
        e, d, rev = _native_build(choose)
        return native(lambda: _native_check(e, d, rev)[0])
    return guard(body, k=k)


CONDITIONS = [
    Condition(c18_identity, slices=[(a, b, o) for a in range(4) for b in range(a, 4) for o in ((0, 1, 2, 3) if a < 2 and b < 2 else (None,))],
              timeout=170, thorough_timeout=1200,
              bounds="slice = (kind of e1, kind of e2, fixed option set of e1 or None) among %r; names %r; symbolic argument / option / value tokens; equal "
                     "hash => same kind, name, arguments, call-time options, exported options" % (KINDS, NAMES)),
    Condition(c18_roundtrip, slices=[0, 1, 2, 3], timeout=170, thorough_timeout=600,
              bounds="slice = kind; __setstate__(__getstate__()) preserves hash, arguments, options (incl. their order), exported "
                     "options, length and resets call_hash / upstreams"),
    Condition(c18_native, timeout=170, thorough_timeout=1200,
              bounds="real pickle round trip and real SHA of every expression from the same menus with two-valued plain arguments"),
]


def replay(cond, args, extra):
    it = iter(extra["choices"])

    def pick(n=None, label=None):
        return next(it)[1]
    if cond == "c18_native":
        e, d, rev = _native_build(pick)
        ok, detail, fid = _native_check(e, d, rev)
        return (not ok), detail, fid
    if cond == "c18_identity":
        k1, k2, fixed_opt = extra["slice"]
        tok = lambda label: "t%d" % pick()
        e1, d1 = _build(KINDS[k1], _fix(pick, fixed_opt), tok, raw=True)
        e2, d2 = _build(KINDS[k2], pick, tok, raw=True)
        if e1.get_hash() == e2.get_hash() and d1 != d2:
            fid = "scheduler-expression-options-not-hashed" if d1[0] == d2[0] == "scheduler" and d1[:3] == d2[:3] else None
            return True, "%r and %r denote different calls (%r vs %r) but have the same hash %s" % (e1, e2, d1, d2, e1.get_hash()), fid
        return False, "hashes differ or same call"
    if cond == "c18_roundtrip":
        tok = lambda label: "t%d" % pick()
        e, d = _build(KINDS[extra["slice"]], pick, tok, raw=True)
        if isinstance(e, E.TaskExpression) and pick():
            e._options = dict(reversed(list(e._options.items())))
        if isinstance(e, E.TaskExpression):
            e._length = [None, 2][pick()]
        h = e.get_hash()
        new = pickle.loads(pickle.dumps(e))
        if new.get_hash() != h:
            return True, "serialize/deserialize changes the hash of %r (options %r -> %r)" % (e, getattr(e, "_options", None), getattr(new, "_options", None)), None
        if isinstance(e, E.TaskExpression) and (new._options != e._options or new._export_options != e._export_options
                                                or new._length != e._length or new.call_hash is not None):
            return True, "serialize/deserialize changes %r" % (e,), None
        return False, "ok"
    return None, "?"
