"""C33 — Status filters agree with displayed statuses.

Real code executed symbolically: CallGraphQuery.filter_job_statuses / filter_execution_statuses / _job_status_term /
build / _join_jobs / _join_values (redun/backends/db/query.py) - the SQLAlchemy clauses they assemble are evaluated by
the S4 FakeSession over one symbolic joined row - and Job.calc_status / Execution.calc_status /
_job_status2exec_status (redun/backends/db/__init__.py) on the same row.
"""
import importlib
import random

from vp.core import SL, Condition, assume, choose, fresh, guard
from vp.stubs.fakedb import NS, FakeSession

db = importlib.import_module("redun.backends.db")
Q = importlib.import_module("redun.backends.db.query")

PROPERTY = "C33"
FUNCTIONS = ["redun.backends.db.query.CallGraphQuery._job_status_term", "CallGraphQuery.filter_job_statuses",
             "CallGraphQuery.filter_execution_statuses", "CallGraphQuery.build/_join_jobs/_join_values",
             "redun.backends.db.Job.calc_status", "redun.backends.db.Execution.calc_status/_job_status2exec_status"]
ASSUMPTIONS = [
    "S4 FakeSession evaluates the real clause objects with SQL three-valued logic (differential self-test against the real "
    "in-memory SQLite backend on a recorded workflow in every run)",
    "row domain = what record_job_start / record_job_end / record_call_node can write: cached is never NULL; end_time set <=> "
    "call_hash set; a job without call node has no result type; every recorded execution has a root job; a root job is never a "
    "deduplicated (cached) failure.  Each clause is witnessed on rows recorded by a real workflow in the self-test.",
]

STATUSES = ["RUNNING", "CACHED", "FAILED", "DONE"]


class JobRow(NS):
    calc_status = db.Job.calc_status


class ExecRow(NS):
    _job_status2exec_status = db.Execution._job_status2exec_status


def _row(suffix=""):
    """One symbolic job row with its (optional) call node and result value row."""
    job, vtype, tables = _row0()
    if suffix:
        job.id = "j" + suffix
        if job.call_hash is not None:
            job.call_hash = "c" + suffix
            tables["call_node"][0].call_hash = "c" + suffix
            tables["call_node"][0].value_hash = "v" + suffix
            tables["value"][0].value_hash = "v" + suffix
    return job, vtype, tables


def _row0():
    ended = choose(2, "ended") == 1
    end_time = fresh(int, "end_time") if ended else None
    if ended:
        assume(end_time > 0)  # a timestamp (datetime objects are truthy)
    cached = fresh(bool, "cached")
    if ended:
        vtype = fresh(str, "result_type")
        job = JobRow(id="j", start_time=0, end_time=end_time, cached=cached, call_hash="c", task_hash="t", parent_id=None,
                 execution_id="e", _status=None)
        tables = {"job": [job], "call_node": [NS(call_hash="c", value_hash="v", task_hash="t", args_hash="a")],
                  "value": [NS(value_hash="v", type=vtype)]}
    else:
        vtype = None
        assume(cached is False or cached == False)  # noqa: E712  (record_job_start writes cached=False)
        job = JobRow(id="j", start_time=0, end_time=None, cached=cached, call_hash=None, task_hash="t", parent_id=None,
                 execution_id="e", _status=None)
        tables = {"job": [job], "call_node": [], "value": []}
    return job, vtype, tables


def c33_jobs(k: int) -> bool:
    """
    post: _
    """
    def body():
        job, vtype, tables = _row()
        displayed = db.Job.calc_status(job, vtype)
        status = STATUSES[SL()]
        q = Q.CallGraphQuery(FakeSession(tables)).filter_job_statuses([status]).build()
        returned = len(q._jobs.all()) == 1
        return returned == (displayed == status)
    return guard(body, k=k)


def c33_jobs_multi(k: int) -> bool:
    """
    post: _
    """
    def body():
        # several statuses at once (the CLI accepts a list): returned iff displayed status is one of them
        job, vtype, tables = _row()
        displayed = db.Job.calc_status(job, vtype)
        wanted = [s for s in STATUSES if choose(2, "want_" + s) == 1]
        if not wanted:
            return True
        q = Q.CallGraphQuery(FakeSession(tables)).filter_job_statuses(wanted).build()
        return (len(q._jobs.all()) == 1) == (displayed in wanted)
    return guard(body, k=k)


def c33_executions(k: int) -> bool:
    """
    post: _
    """
    def body():
        job, vtype, tables = _row()
        if vtype is not None:
            assume(not (job.cached and vtype == "redun.ErrorValue"))  # a root job is never a deduplicated failure
        ex = ExecRow(id="e", job_id="j", job=job, _status=None)
        tables["execution"] = [ex]
        if choose(2, "has_child_job") == 1:
            # a second job of the same execution (a child of the root) with its own, independent status
            child, _, t2 = _row("2")
            child.parent_id = "j"
            for name in ("job", "call_node", "value"):
                tables[name] = tables[name] + t2[name]
        displayed = db.Execution.calc_status(ex, vtype)
        status = ["RUNNING", "FAILED", "DONE"][SL()]
        q = Q.CallGraphQuery(FakeSession(tables)).filter_execution_statuses([status]).build()
        returned = len(q._executions.all()) == 1
        return returned == (displayed == status)
    return guard(body, k=k)


CONDITIONS = [
    Condition(c33_jobs, slices=[0, 1, 2, 3], timeout=120,
              bounds="slice = status filtered for; one job row: ended or not, symbolic end_time, cached flag and result type string "
                     "(unbounded), under the recorder invariants"),
    Condition(c33_jobs_multi, timeout=170, bounds="every non-empty subset of statuses, same row domain"),
    Condition(c33_executions, slices=[0, 1, 2], timeout=120,
              bounds="slice = execution status filtered for; root job row as above"),
]


# ---------------------------------------------------------------------------------------------
def _record_workflow():
    """A real workflow (in-memory backend) with done, cached, failed, CSE-failed jobs and one job left running."""
    import logging
    from redun import Scheduler, task
    from redun.scheduler import Execution as SExecution, Job as SJob
    logging.disable(logging.CRITICAL)
    ns = "vp_c33"

    def ok(x):
        return x

    def boom(x):
        raise ValueError("boom")

    def recover(e):
        return 0
    t_ok = task(name="ok", namespace=ns, version="1")(ok)
    t_boom = task(name="boom", namespace=ns, version="1")(boom)

    t_recover = task(name="recover", namespace=ns, version="1")(recover)

    def pa():
        return t_boom(1)

    def pb():
        return t_boom(1)
    t_pa = task(name="pa", namespace=ns, version="1")(pa)
    t_pb = task(name="pb", namespace=ns, version="1")(pb)

    def main():
        from redun.scheduler import catch_all
        # the same failing call reached from two parents: the second one is deduplicated (cached) and failed
        return [t_ok(1), t_ok(1), catch_all([t_pa(), t_pb()], ValueError, t_recover)]
    t_main = task(name="main", namespace=ns, version="1")(main)
    s = Scheduler()
    s.load()
    s.run(t_main())
    s.run(t_main())  # second execution: root job cached

    def failing():
        return t_boom(2)
    t_fail = task(name="failing", namespace=ns, version="1")(failing)
    try:
        s.run(t_fail())
    except ValueError:
        pass
    # a job that started and never ended
    ex = SExecution("vp-running-exec")
    s.backend.record_execution(ex.id, ["x"])
    running = SJob(t_ok, t_ok(9), execution=ex)
    s.backend.record_job_start(running)
    return s


def self_test(seed):
    """(a) the recorder invariants hold on really recorded rows and all five kinds occur; (b) FakeSession agrees with the
    real SQLite backend: each recorded job fed through the fake query gives the same answer as the real CallGraphQuery."""
    s = _record_workflow()
    session = s.backend.session
    kinds = set()
    agree = 0
    for job in session.query(db.Job).all():
        vtype = job.call_node.value.type if job.call_node else None
        assert job.cached is not None
        assert (job.end_time is None) == (job.call_hash is None)
        assert (job.call_node is None) == (vtype is None)
        kinds.add((job.end_time is not None, bool(job.cached), vtype == "redun.ErrorValue"))
        row = NS(id=job.id, start_time=0, end_time=(1 if job.end_time else None), cached=job.cached, call_hash=job.call_hash,
                 task_hash=job.task_hash, parent_id=None, execution_id=job.execution_id, _status=None)
        tables = {"job": [row],
                  "call_node": [NS(call_hash=job.call_hash, value_hash="v", task_hash="t", args_hash="a")] if job.call_hash else [],
                  "value": [NS(value_hash="v", type=vtype)] if job.call_hash else []}
        for st in STATUSES:
            fake = len(Q.CallGraphQuery(FakeSession(tables)).filter_job_statuses([st]).build()._jobs.all()) == 1
            real = job.id in [j.id for j in Q.CallGraphQuery(session).filter_types(["Job"]).filter_job_statuses([st]).all()]
            assert fake == real, (job.id, st, fake, real)
            agree += 1
    want = {(False, False, False), (True, False, False), (True, True, False), (True, False, True), (True, True, True)}
    assert want <= kinds, kinds
    for ex in session.query(db.Execution).all():
        assert ex.job is not None
    return {"job_kinds_witnessed": sorted(kinds), "fake_vs_sqlite_agreements": agree}


def replay(cond, args, extra):
    """Find a really recorded job of the counterexample's kind and query it through the real CallGraphQuery on SQLite."""
    ch = {}
    for label, v in extra["choices"]:
        ch.setdefault(label, v)
    ended = ch.get("ended") == 1
    cached = bool(ch.get("cached")) if ended else False
    is_err = ended and ch.get("result_type") == "redun.ErrorValue"
    s = _record_workflow()
    session = s.backend.session
    if cond == "c33_executions":
        for ex in session.query(db.Execution).all():
            vtype = ex.job.call_node.value.type if ex.job and ex.job.call_node else None
            if ex.job and ((ex.job.end_time is not None), bool(ex.job.cached), vtype == "redun.ErrorValue") == (ended, cached, is_err):
                for st in ["RUNNING", "FAILED", "DONE"]:
                    ids = [e.id for e in Q.CallGraphQuery(session).filter_types(["Execution"]).filter_execution_statuses([st]).all()]
                    if (ex.id in ids) != (ex.status == st):
                        return True, "execution %s is displayed %s but the %s filter %s it" % (
                            ex.id, ex.status, st, "returns" if ex.id in ids else "does not return"), None
        return False, "executions of that kind agree (or none recordable)"
    for job in session.query(db.Job).all():
        vtype = job.call_node.value.type if job.call_node else None
        if ((job.end_time is not None), bool(job.cached), vtype == "redun.ErrorValue") != (ended, cached, is_err):
            continue
        for st in STATUSES:
            ids = [j.id for j in Q.CallGraphQuery(session).filter_types(["Job"]).filter_job_statuses([st]).all()]
            if (job.id in ids) != (job.status == st):
                fid = "cse-failed-job-matches-cached-filter" if (cached and is_err and st == "CACHED") else None
                return True, "job of task %s (ended=%s cached=%s error=%s) is displayed %s but the %s filter %s it" % (
                    job.task.name, ended, cached, is_err, job.status, st, "returns" if job.id in ids else "does not return"), fid
    return False, "no recorded job of kind ended=%s cached=%s error=%s disagrees" % (ended, cached, is_err)
