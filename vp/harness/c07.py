"""C07 — Results and recorded call graph do not depend on timing.

SchedLab (stub S6): for a solver-chosen workflow shape, completion schedule (late / early / completion-during-event
modes) and symbolic resource limit, the run is compared with a reference run of the same program (fresh backend, strictly
serial depth-first completions, ample resources): same returned value and the same sets of call-node hashes,
argument hashes, argument/result value hashes and recorded handle hashes.  A second template passes a Handle to parallel
chains of tasks under a resource limit.
"""
import importlib

from redun import Handle, task
from vp.core import SL, Condition, choose, excluded, guard, native
from vp.harness import c08 as L
from vp.harness import schedprog as P

RS = importlib.import_module("redun.scheduler")
db = importlib.import_module("redun.backends.db")

PROPERTY = "C07"
FUNCTIONS = L.FUNCTIONS + ["redun.scheduler.Scheduler._preprocess_args (handle fork keys)", "Scheduler._postprocess_result",
                           "Scheduler._resolve_job_main_thread (call node recording)", "redun.scheduler.Job.collapse",
                           "redun.handle.Handle.fork/apply_call", "redun.backends.db.RedunBackendDb.record_call_node"]
ASSUMPTIONS = L.ASSUMPTIONS + [
    "compared: returned value; sets of call hashes, argument hashes, value hashes of arguments and results, handle hashes of "
    "the execution (timestamps, job ids and which duplicate is marked cached are ignored)",
    "handle template: one handle forked into two chains step -> finish inside one parent, tasks 'step' demand the resource",
    "lazy-handle template: one handle passed to sibling steps whose other argument is a lazy value; same-parent template: one "
    "parent returns equal calls written as different expressions",
]
install = L.install
B = L.BRANCH


class Conn(Handle):
    def __init__(self, name, tag="conn"):
        self.tag = tag


@task(name="hstep", namespace=P.NS, version="1")
def hstep(salt, h, x):
    return h


@task(name="hfinish", namespace=P.NS, version="1")
def hfinish(salt, h, x):
    return h


@task(name="hmain", namespace=P.NS, version="1")
def hmain(salt, n):
    h = Conn("c")
    return [hfinish(salt, hstep(salt, h, i), i) for i in range(n)]


@task(name="hslow", namespace=P.NS, version="1")
def hslow(salt, i):
    return i


@task(name="hmain_lazy", namespace=P.NS, version="1")
def hmain_lazy(salt, n):
    # the same handle goes to n sibling steps whose other argument is a lazy value: the steps become ready in the order in
    # which those values arrive
    h = Conn("c")
    return [hstep(salt, h, hslow(salt, i)) for i in range(n)]


@task(name="sident", namespace=P.NS, version="1")
def sident(salt, x):
    return x


@task(name="sleaf", namespace=P.NS, version="1")
def sleaf(salt, x):
    return x * 10


@task(name="smain", namespace=P.NS, version="1")
def smain(salt, n):
    # the same call written as different expressions under ONE parent: whether the later ones are collapsed onto the running
    # twin or served from the backend depends on the completion order
    return [sleaf(salt, 2)] + [sleaf(salt, sident(salt, 2 + 0 * i)) if i == 0 else sleaf(salt, sident(salt, sident(salt, 2))) for i in range(n - 1)]


def fingerprint(backend, exec_id):
    s = backend.session
    jobs = s.query(db.Job).filter(db.Job.execution_id == exec_id).all()
    calls = set(j.call_hash for j in jobs if j.call_hash)
    nodes = s.query(db.CallNode).filter(db.CallNode.call_hash.in_(calls)).all() if calls else []
    args_hashes = set(n.args_hash for n in nodes)
    results = set(n.value_hash for n in nodes)
    arg_values = set(a.value_hash for a in s.query(db.Argument).filter(db.Argument.call_hash.in_(calls)).all()) if calls else set()
    handles = set(h.hash for h in s.query(db.Handle).all())
    return {"call_hashes": calls, "args_hashes": args_hashes, "result_value_hashes": results, "argument_value_hashes": arg_values,
            "handle_hashes": handles}


def _fresh_backend():
    s = RS.Scheduler()
    s.load()
    return s.backend


def _norm(v):
    if isinstance(v, Handle):
        return ("handle", v.get_hash())
    if isinstance(v, (list, tuple)):
        return [_norm(i) for i in v]
    return v


def _run(kind, spec_or_n, pick, limits, leaf_limits, mid_limits, early, symbolic, with_bad, reference=False):
    backend = _fresh_backend()
    salt = "S"
    if kind == "branches":
        kw = {"fifo_tasks": ()} if reference else {}
        lab, outcome, _ = P.run_case(spec_or_n, pick, limits, leaf_limits, mid_limits, early=early, symbolic=symbolic,
                                     with_bad=with_bad, salt=salt, backend=backend, hog_limits=L._hog(limits),
                                     run_kwargs={"execution_id": "E"}, **kw)
    elif kind == "same_parent":
        from vp.stubs.schedlab import Lab
        lab = Lab(pick, limits={}, early=early, backend=backend, symbolic=False, fifo_tasks=() if reference else ("smain",))
        outcome = lab.run(smain(salt, spec_or_n), execution_id="E")
    elif kind == "handles_lazy":
        from vp.stubs.schedlab import Lab
        hstep._task_options_base["limits"] = []
        lab = Lab(pick, limits={}, early=early, backend=backend, symbolic=False, fifo_tasks=() if reference else ("hmain_lazy",))
        outcome = lab.run(hmain_lazy(salt, spec_or_n), execution_id="E")
    else:
        from vp.stubs.schedlab import Lab
        hstep._task_options_base["limits"] = leaf_limits
        lab = Lab(pick, limits=limits, early=early, backend=backend, symbolic=symbolic,
                  fifo_tasks=() if (early == 1 or reference) else ("hmain",))
        outcome = lab.run(hmain(salt, spec_or_n), execution_id="E")
    out = (outcome[0], _norm(outcome[1]) if outcome[0] == "ok" else (type(outcome[1]).__name__, str(outcome[1])))
    return out, fingerprint(backend, "E"), lab


def compare(kind, spec_or_n, pick, limits, leaf_limits, mid_limits, early, symbolic, with_bad):
    ref_limits = {"r": 1000}
    ref_demand = {"r": 1} if isinstance(leaf_limits, dict) else ["r"]
    # reference: strictly serial, depth-first execution (the most recently submitted job completes first, so nothing ever
    # runs concurrently and duplicates are served by the backend), ample resources
    ref_out, ref_fp, ref_lab = _run(kind, spec_or_n, lambda n, label: n - 1, ref_limits, ref_demand, mid_limits, 0, False, with_bad,
                                    reference=True)
    LAST["ref_slow_order"] = [a for (t, a) in ref_lab.completion_log if t == "hslow"]
    out, fp, lab = _run(kind, spec_or_n, pick, limits, leaf_limits, mid_limits, early, symbolic, with_bad)
    LAST["slow_order"] = [a for (t, a) in lab.completion_log if t == "hslow"]
    if out[0] == "deadlock" or ref_out[0] == "deadlock":
        return None  # termination is C09's subject
    if ref_out[0] == "error" and out[0] == "error":
        # several uncaught failures: which one is reported first may depend on timing; what is recorded up to the stop too
        return None
    if out != ref_out:
        return "returned %r, the reference run (serial completions, ample resources) returned %r" % (out, ref_out)
    for k in ref_fp:
        if fp[k] != ref_fp[k]:
            return "%s differ from the reference run: %d only in this run, %d only in the reference (of %d)" % (
                k, len(fp[k] - ref_fp[k]), len(ref_fp[k] - fp[k]), len(ref_fp[k]))
    return None


LAST = {}


def _dup_failing(spec):
    """The listed finding's class: the same failing call occurs in two branches."""
    fails = [(x, mode in (2,)) for (x, fail, caught, mode) in spec if fail]
    return len(set(fails)) < len(fails)


def c07_branches(k: int) -> bool:
    """
    post: _
    """
    def body():
        n, first, early, form, mid, with_bad, menu, fixed = SL()
        spec = L.pick_case(n, first, menu, fixed)
        if excluded("duplicate-failing-call-records-different-error-values") and _dup_failing(spec):
            return True
        P.FLAGS["atomic_results"] = excluded("shared-result-object-changes-pickle")
        mid_limits = ["r"] if mid else None
        limits, leaf_limits, _, _ = L.symbolic_limits(form)
        return native(lambda: compare("branches", spec, choose, limits, leaf_limits, mid_limits, early, True, int(with_bad)) is None)
    return guard(body, k=k)


def c07_handles(k: int) -> bool:
    """
    post: _
    """
    def body():
        n, early, form = SL()
        limits, leaf_limits, _, _ = L.symbolic_limits(form)
        return native(lambda: compare("handles", n, choose, limits, leaf_limits, None, early, True, 0) is None)
    return guard(body, k=k)


def c07_same_parent(k: int) -> bool:
    """
    post: _
    """
    def body():
        n, early = SL()
        return native(lambda: compare("same_parent", n, choose, {}, [], None, early, False, 0) is None)
    return guard(body, k=k)


def c07_handles_lazy(k: int) -> bool:
    """
    post: _
    """
    def body():
        n, early = SL()

        def run():
            v = compare("handles_lazy", n, choose, {}, [], None, early, False, 0)
            if v is not None and excluded("handle-fork-key-follows-readiness-order") and LAST["slow_order"] != LAST["ref_slow_order"]:
                return True
            return v is None
        return native(run)
    return guard(body, k=k)


SHARED = [B[6], B[6], B[0]]
WRAPPED = [(1, 0, 0, 5), (1, 0, 0, 5), B[0]]  # the same non-leaf call returned by two different wrapper jobs
_Q = [(3, 0, 0, 0, 0, 0, 4, WRAPPED), (3, 0, 0, 1, 1, 0, 4, WRAPPED)] + [(3, f, 0, 0, 0, 0, L.NQ, None) for f in (0, 1, 2)] + [(3, 0, 0, 0, 0, 0, 4, SHARED), (3, 0, 1, 1, 0, 0, 4, SHARED),
                                                            (3, 0, 0, 0, 1, 0, 4, [B[1], B[1], B[2]])]
_T = [(3, f, 0, form, m, 0, len(B), None) for f in range(len(B)) for form in (0, 1) for m in (0, 1)] + [
    (3, 0, e, 0, 0, 0, 4, SHARED) for e in (1, 2)] + [(3, 0, 1, 1, 0, 0, 4, WRAPPED)] + [(4, 0, 0, 0, 0, 0, 4, L.DUP4), (3, 0, 0, 0, 0, 2, 4, L.ALLFAIL3)]
CONDITIONS = [
    Condition(c07_branches, slices=_Q, thorough_slices=_T, timeout=300, thorough_timeout=2400, bounds=L.CONDITIONS[0].bounds),
    Condition(c07_handles, slices=[(2, 0, 0), (2, 1, 1)], thorough_slices=[(2, 0, 0), (2, 1, 0), (2, 2, 0), (3, 0, 0), (3, 0, 1)],
              timeout=300, thorough_timeout=2400,
              bounds="slice = (parallel chains sharing one handle, early mode, limit form); limit and demand symbolic, schedule "
                     "solver-chosen"),
    Condition(c07_same_parent, slices=[(2, 0), (3, 0), (2, 1)], thorough_slices=[(2, 0), (3, 0), (2, 1), (3, 1), (2, 2)], timeout=200,
              thorough_timeout=900,
              bounds="slice = (equal calls written as different expressions under one parent: sleaf(2), sleaf(sident(2)), "
                     "sleaf(sident(sident(2))); early mode); completion order solver-chosen; no resource limits"),
    Condition(c07_handles_lazy, slices=[(2, 0), (3, 0)], thorough_slices=[(2, 0), (3, 0), (2, 1), (3, 1)], timeout=200, thorough_timeout=900,
              bounds="slice = (sibling steps that share one handle and each take a lazily computed second argument, early mode); "
                     "the order in which the lazy arguments arrive is solver-chosen; no resource limits"),
]


def replay(cond, args, extra):
    items = list(extra["choices"])
    pos = [0]

    def nxt():
        v = items[pos[0]]
        pos[0] += 1
        return v[1]

    def limits_of(form):
        if form == 2:
            return {}, ["r"]
        if form == 1:
            return {"r": nxt()}, ["r"]
        limit = nxt()
        return {"r": limit}, {"r": nxt()}
    pick = lambda m, label: min(nxt(), m - 1) if pos[0] < len(items) else 0
    if cond == "c07_same_parent":
        n, early = extra["slice"]
        v = compare("same_parent", n, pick, {}, [], None, early, False, 0)
        return (v is not None), "one parent returns %d equal calls written as different expressions (sleaf(2), sleaf(sident(2)), ...): %s" % (n, v), None
    if cond == "c07_handles_lazy":
        n, early = extra["slice"]
        v = compare("handles_lazy", n, pick, {}, [], None, early, False, 0)
        fid = "handle-fork-key-follows-readiness-order" if (v and LAST["slow_order"] != LAST["ref_slow_order"]) else None
        return (v is not None), "one handle passed to %d sibling steps hstep(h, hslow(i)); lazy arguments arrived in the order %r (reference %r): %s" % (
            n, LAST["slow_order"], LAST["ref_slow_order"], v), fid
    if cond == "c07_handles":
        n, early, form = extra["slice"]
        limits, leaf_limits = limits_of(form)
        v = compare("handles", n, pick, limits, leaf_limits, None, early, False, 0)
        desc = "one handle passed to %d parallel step->finish chains, limits %r, step demand %r" % (n, limits, leaf_limits)
        fid = "handle-forked-again-after-waiting-for-limits" if v and "handle" in v or (v and "differ" in v) else None
        return (v is not None), "%s: %s" % (desc, v), fid
    n, first, early, form, mid, with_bad, menu, fixed = extra["slice"]
    spec = [tuple(b) for b in fixed] if fixed is not None else [B[first]] + [B[nxt()] for _ in range(n - 1)]
    limits, leaf_limits = limits_of(form)
    P.FLAGS["atomic_results"] = bool(extra.get("atomic_results"))
    v = compare("branches", spec, pick, limits, leaf_limits, ["r"] if mid else None, early, False, int(with_bad))
    if v and not _dup_failing(spec) and "call_hashes" in v:
        # is it only the pickle of a value that contains one shared result object several times?
        P.FLAGS["atomic_results"] = True
        pos[0] = 0
        if fixed is None:
            [nxt() for _ in range(n - 1)]
        limits_of(form)
        v2 = compare("branches", spec, pick, limits, leaf_limits, ["r"] if mid else None, early, False, int(with_bad))
        P.FLAGS["atomic_results"] = False
        if v2 is None:
            return True, "branches %r, limits %r, leaf demand %r: %s (with atomic leaf results the runs agree)" % (
                spec, limits, leaf_limits, v), "shared-result-object-changes-pickle"
    fid = "duplicate-failing-call-records-different-error-values" if v and _dup_failing(spec) and "hashes differ" in v else None
    return (v is not None), "branches %r, limits %r, leaf demand %r: %s" % (spec, limits, leaf_limits, v), fid
