"""C03 — Shallow (ultimate-reduction) cache hits respect code changes in the subtree.

Real code: the real Scheduler and SQLite backend - RedunBackendDb.check_cache (ULTIMATE branch), _get_call_node,
get_subtree_tasks, record_call_node (CallSubtreeTask rows), Job.calc_subtree_tasks / Scheduler._get_subtree_tasks,
get_records / put_records (transfer to another repository).  A history of code edits, executions, transfers to a fresh
repository and interrupted recordings is a vector of solver choice variables; the oracle is the value the current code
computes (every task stamps its version into the result).
"""
import importlib
import os
import shutil
import tempfile

from redun import task
from vp.core import SL, Condition, choose, excluded, guard, native

RS = importlib.import_module("redun.scheduler")
db = importlib.import_module("redun.backends.db")

PROPERTY = "C03"
FUNCTIONS = ["redun.backends.db.RedunBackendDb.check_cache (ULTIMATE)", "RedunBackendDb._get_call_node", "RedunBackendDb.get_subtree_tasks",
             "RedunBackendDb.record_call_node", "RedunBackendDb.get_records/put_records", "redun.scheduler.Job.calc_subtree_tasks",
             "redun.scheduler.Scheduler._get_subtree_tasks", "redun.scheduler.Job.collapse", "redun.task.TaskRegistry.task_hashes"]
ASSUMPTIONS = [
    "workflow shapes: outer(shallow) -> mid -> inner; the same with mid run without provenance (prov=False); outer(shallow) -> two "
    "different parents that both call inner with the same argument; two shallow parents that both call the same non-leaf task; "
    "a shallow task whose non-leaf child fails (while inner has version 1), collected by catch_all and recovered; "
    "each task returns its version stamp around its child's result",
    "histories of <= 4 (quick) / 5 (thorough) steps from: run, edit inner / mid / outer (new version), revert inner, transfer all "
    "records to a fresh repository and continue there",
    "interrupted or retried recordings (process death between two commits of one recording) are NOT covered: emulating them "
    "in-process gave sqlite foreign-key errors whose cause could not be separated from the emulation (cf. C22, not applicable)",
    "real file-backed SQLite; executions run under the controlled executor of stub S6 with a solver-chosen completion order; "
    "Postgres is outside",
]

NS = "vp_c03"
STEPS = ["run", "edit_inner", "edit_mid", "edit_outer", "revert_inner", "transfer"]
SHAPES = ["chain", "noprov_mid", "shared_inner", "shared_nonleaf", "caught_failure"]
_N = [0]


class Crash(BaseException):
    pass


def _define(shape, v, uid):
    """(Re)define the tasks of a shape with the given versions; returns the root task."""
    ns = "%s_%s" % (NS, uid)

    def inner(x):
        return "i%d(%s)" % (v["inner"], x)
    inner_t = task(name="inner", namespace=ns, version=str(v["inner"]))(inner)

    def mid(x):
        return ["m%d" % v["mid"], inner_t(x)]
    mid_t = task(name="mid", namespace=ns, version=str(v["mid"]))(mid)

    def mid2(x):
        return ["n%d" % v["mid"], inner_t(x)]
    mid2_t = task(name="mid2", namespace=ns, version=str(v["mid"]))(mid2)

    def shared(x):
        return ["s", inner_t(x)]
    shared_t = task(name="shared", namespace=ns, version="1")(shared)

    def pa(x):
        return ["m%d" % v["mid"], shared_t(x)]
    pa_t = task(name="pa", namespace=ns, version=str(v["mid"]), check_valid="shallow")(pa)

    def pb(x):
        return ["n%d" % v["mid"], shared_t(x)]
    pb_t = task(name="pb", namespace=ns, version=str(v["mid"]), check_valid="shallow")(pb)

    if shape == "caught_failure":
        # a non-leaf job beneath the shallow task fails (while inner has version 1), the failure is collected by catch_all and
        # recovered; the tasks that ran beneath the failed job still belong to the shallow task's recorded subtree
        from redun.scheduler import catch_all

        def validate(s):
            if s.startswith("i1("):
                raise ValueError("bad " + s)
            return ["val", s]
        validate_t = task(name="validate", namespace=ns, version="1")(validate)

        def fmid(x):
            return ["m%d" % v["mid"], validate_t(inner_t(x))]
        fmid_t = task(name="fmid", namespace=ns, version=str(v["mid"]))(fmid)

        def recover(values):
            return ["rec", ["failed" if isinstance(val, Exception) else val for val in values]]
        recover_t = task(name="recover", namespace=ns, version="1")(recover)

        def outer(x):
            return ["o%d" % v["outer"], catch_all([fmid_t(x)], ValueError, recover_t)]
        return task(name="outer", namespace=ns, version=str(v["outer"]), check_valid="shallow")(outer)
    if shape == "shared_nonleaf":
        # two shallow parents reach the same non-leaf call shared(x) -> inner(x)
        def outer(x):
            return ["o%d" % v["outer"], pa_t(x), pb_t(x)]
        return task(name="outer", namespace=ns, version=str(v["outer"]))(outer)
    if shape == "chain":
        def outer(x):
            return ["o%d" % v["outer"], mid_t(x)]
    elif shape == "noprov_mid":
        def outer(x):
            return ["o%d" % v["outer"], mid_t.options(prov=False)(x)]
    else:
        def outer(x):
            return ["o%d" % v["outer"], mid_t(x), mid2_t(x)]
    return task(name="outer", namespace=ns, version=str(v["outer"]), check_valid="shallow")(outer)


def _expected(shape, v, x):
    i = "i%d(%s)" % (v["inner"], x)
    if shape == "caught_failure":
        if v["inner"] == 1:
            return ["o%d" % v["outer"], ["rec", ["failed"]]]
        return ["o%d" % v["outer"], [["m%d" % v["mid"], ["val", i]]]]
    if shape == "shared_nonleaf":
        return ["o%d" % v["outer"], ["m%d" % v["mid"], ["s", i]], ["n%d" % v["mid"], ["s", i]]]
    if shape == "shared_inner":
        return ["o%d" % v["outer"], ["m%d" % v["mid"], i], ["n%d" % v["mid"], i]]
    return ["o%d" % v["outer"], ["m%d" % v["mid"], i]]


def _scheduler(path):
    from redun.config import Config
    s = RS.Scheduler(config=Config({"backend": {"db_uri": "sqlite:///" + path}}))
    s.load()
    return s


def run_history(shape, steps, pick):
    import logging
    logging.disable(logging.CRITICAL)
    _N[0] += 1
    uid = "%d_%d" % (os.getpid(), _N[0])
    root = tempfile.mkdtemp(prefix="vp_c03_")
    try:
        return _run_history(shape, steps, pick, uid, root)
    finally:
        shutil.rmtree(root, ignore_errors=True)


def _run_history(shape, steps, pick, uid, root):
    v = {"inner": 1, "mid": 1, "outer": 1}
    nrepo = [0]
    path = os.path.join(root, "repo0.db")
    s = _scheduler(path)
    outer = _define(shape, v, uid)
    trace = []
    imported = False
    # the first step is always a run, so that there is something recorded
    for step in ["run"] + list(steps):
        trace.append(step)
        if step == "run":
            # controlled executor: which in-flight job completes next is solver-chosen (stub S6), so that duplicate calls
            # are met both while their twin is still running and after it finished
            from vp.stubs.schedlab import Lab
            lab = Lab(pick, backend=s.backend)
            out = lab.run(outer(7))
            if out[0] != "ok":
                return False, "%s after %s: run ended with %r" % (shape, trace, out), imported
            got = out[1]
            want = _expected(shape, v, 7)
            if got != want:
                return False, "%s after %s: run returned %r, the current code computes %r" % (shape, trace, got, want), imported
        elif step in ("edit_inner", "edit_mid", "edit_outer"):
            v[step[5:]] += 10
            outer = _define(shape, v, uid)
        elif step == "revert_inner":
            v["inner"] = 1
            outer = _define(shape, v, uid)
        elif step == "transfer":
            nrepo[0] += 1
            path = os.path.join(root, "repo%d.db" % nrepo[0])
            dst = _scheduler(path)
            ids = list(s.backend.iter_record_ids([e.id for e in s.backend.session.query(db.Execution).all()]))
            dst.backend.put_records(s.backend.get_records(ids))
            s = dst
            imported = True
        else:  # interrupted_run: the process dies after k commits of this run; a new process then runs again
            k = pick(12, "crash_after_commits") + 1
            sess = s.backend.session
            real_commit = sess.commit
            count = [0]

            def commit():
                real_commit()
                count[0] += 1
                if count[0] >= k:
                    raise Crash()
            sess.commit = commit
            try:
                s.run(outer(7))
            except Crash:
                pass
            except Exception:
                pass
            finally:
                sess.commit = real_commit
            try:
                sess.rollback()
                sess.close()
            except Exception:
                pass
            s = _scheduler(path)
    return True, "ok", imported


def c03_history(k: int) -> bool:
    """
    post: _
    """
    def body():
        shape_i, n, first = SL()
        steps = [STEPS[f] for f in first] + [STEPS[choose(len(STEPS), "step")] for _ in range(n - len(first))]
        # make the history end with a run so that its effect is observed
        steps = steps + ["run"]
        if excluded("imported-call-nodes-lack-subtree-rows") and "transfer" in steps:
            return True
        return native(lambda: run_history(SHAPES[shape_i], steps, choose)[0])
    return guard(body, k=k)


def c03_kernel(k: int) -> bool:
    """
    post: _
    """
    def body():
        from vp.core import assume
        from vp.harness import dbkern as K
        pi, pc, pb = K.sym_pickers()
        nn, nr = SL()
        case = K.sub_case(pi, K.fixed_pick(pc, {"n_nodes": nn, "n_subtree_rows": nr}))
        ts = [n["timestamp"] for n in case["nodes"]]
        for i in range(len(ts)):
            for j in range(i + 1, len(ts)):
                assume(ts[i] != ts[j])  # "newest" is only defined for distinct timestamps
        return K.sub_run_fake(case) == K.sub_expected(case)
    return guard(body, k=k)


_NS = len(STEPS)
_Q = [(sh, 2, (a,)) for sh in range(5) for a in (1, 2, 3)] + [(sh, 3, (1, 0)) for sh in range(5)] + [(0, 2, (5,))]
_T = [(sh, 3, (a,)) for sh in range(5) for a in range(_NS)] + [(sh, 4, (a, b)) for sh in range(5) for a in (1, 2) for b in (0, 4)]
CONDITIONS = [
    Condition(c03_kernel, slices=[(a, b) for a in (0, 1, 2) for b in (0, 1, 2, 3, 4) if a + b <= 3] + [(1, 3)],
              thorough_slices=[(a, b) for a in (0, 1, 2) for b in (0, 1, 2, 3, 4)], timeout=250, thorough_timeout=1800,
              bounds="slice = (call nodes - 1, call_subtree_task rows); real _get_call_node on the S4 session: 1-3 call nodes with unbounded symbolic task / argument tokens and pairwise "
                     "distinct symbolic timestamps, 0-4 call_subtree_task rows (node and task solver-chosen among 2 tasks), any registry "
                     "subset of the 2 tasks; returns the newest matching node whose recorded task set is within the registry, else none"),
    Condition(c03_history, slices=_Q, thorough_slices=_T, timeout=280, thorough_timeout=3000,
              bounds="slice = (workflow shape index into %r, steps between the initial and the final run, fixed first steps as "
                     "indices into %r); remaining steps and the commit count at which an interrupted run dies are solver-chosen" % (
                         SHAPES, STEPS)),
]


def self_test(seed):
    from vp.harness import dbkern as K
    return {"S4_vs_sqlite_agreeing_cases": K.differential("sub", seed)}


def warmup(cond):
    if cond == "c03_kernel":
        from vp.harness import dbkern as K
        K.warm("sub")


def replay(cond, args, extra):
    if cond == "c03_kernel":
        from vp.harness import dbkern as K
        pi, pc, pb = K.replay_pickers(extra["choices"])
        nn, nr = extra["slice"]
        case = K.sub_case(pi, K.fixed_pick(pc, {"n_nodes": nn, "n_subtree_rows": nr}))
        got, want = K.sub_run_real(case), K.sub_expected(case)
        return got != want, "_get_call_node on the real SQLite backend with rows %r returned %r, expected %r" % (case, got, want), None
    shape_i, n, first = extra["slice"]
    items = list(extra["choices"])
    nsteps = n - len(first)
    steps = [STEPS[f] for f in first] + [STEPS[c[1]] for c in items[:nsteps]] + ["run"]
    it = iter(items[nsteps:])
    # a path that was cut short (class of a listed finding assumed away) has no recorded completion order: complete in order
    ok, detail, imported = run_history(SHAPES[shape_i], steps, lambda m, label: min(next(it, (None, 0))[1], m - 1))
    fid = "imported-call-nodes-lack-subtree-rows" if (not ok and imported) else None
    return (not ok), detail, fid
