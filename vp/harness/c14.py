"""C14 — The canonical structure encoding behind every hash is injective.

Real code executed symbolically: redun.bcoding.bencode/_bencode_to_file/_encode_int/_encode_buffer/
_encode_iterable/_encode_mapping and bdecode/_decode_int/_decode_buffer/_decode_list/_decode_dict/_readuntil,
plus redun.hashing.hash_struct's use of it.  Stub S1 (pure-Python BytesIO) keeps the bytes symbolic.
The *shape* of each structure is chosen by solver variables among the listed skeletons; all leaves
(ints, byte strings, unicode strings, dict keys) are symbolic.
"""
import importlib
import random

from vp.core import SL, Condition, assume, choose, fresh, guard
from vp.stubs.common import PyBytesIO, install_pybytesio, selftest_pybytesio

bc = importlib.import_module("redun.bcoding")

PROPERTY = "C14"
FUNCTIONS = ["redun.bcoding.bencode", "redun.bcoding._bencode_to_file", "redun.bcoding._encode_int",
             "redun.bcoding._encode_buffer", "redun.bcoding._encode_iterable", "redun.bcoding._encode_mapping",
             "redun.bcoding.bdecode", "redun.bcoding._decode_int", "redun.bcoding._decode_buffer",
             "redun.bcoding._decode_list", "redun.bcoding._decode_dict", "redun.bcoding._readuntil"]
ASSUMPTIONS = [
    "S1: io.BytesIO replaced by a pure-Python buffer with the same contract (differentially tested on every run)",
    "leaves: ints |n| <= bound (slice), byte strings <= 2 bytes, unicode strings <= 2 code points < 256 (1- and 2-byte "
    "UTF-8), dict keys <= 1 character; nesting depth and width as listed in SHAPES; larger structures are outside the claim",
    "injectivity for all structures follows from the round-trip condition (bdecode is a left inverse of bencode up to the "
    "allowed identifications), so pairs of structures are only checked directly at small bounds",
]


# skeletons: I int, B bytes, S str, ("L", ...) list, ("T", ...) tuple, ("D", (keykind, shape)...) dict
SHAPES = [
    "I", "B", "S",
    ("L",), ("L", "I"), ("L", "B"), ("L", "S"), ("L", "I", "I"), ("L", "B", "I"), ("T", "I", "B"),
    ("D",), ("D", ("S", "I")), ("D", ("S", "B")), ("D", ("B", "I")), ("D", ("S", "I"), ("S", "I")),
    ("L", ("L",)), ("L", ("L", "I")), ("L", ("D",)), ("L", ("D", ("S", "I"))), ("D", ("S", ("L", "I"))),
    ("D", ("S", ("D",))), ("L", ("L", "B"), "I"),
]
DEPTH1 = list(range(15))  # skeletons without a container inside a container


def install():
    install_pybytesio()


def self_test(seed):
    n = selftest_pybytesio(random.Random(seed), 300)
    # the stubbed encoder must agree with the stock one on concrete structures
    import io
    rng = random.Random(seed)
    agree = 0
    for _ in range(200):
        x = _concrete(rng, 2)
        bc.BytesIO = io.BytesIO
        try:
            a = bc.bencode(x)
            da = bc.bdecode(a)
        finally:
            bc.BytesIO = PyBytesIO
        b = bc.bencode(x)
        db = bc.bdecode(b)
        bc.BytesIO = io.BytesIO
        assert a == b and da == db, x
        agree += 1
    return {"pybytesio_sequences": n, "bencode_bdecode_agreements": agree}


def _concrete(rng, d):
    k = rng.randint(0, 4 if d > 0 else 2)
    if k == 0:
        return rng.randint(-120, 120)
    if k == 1:
        return rng.choice([b"", b"a", b"\xff", b"i1e", b"1:"])
    if k == 2:
        return rng.choice(["", "a", "\xe9", "le", "d"])
    if k == 3:
        return [_concrete(rng, d - 1) for _ in range(rng.randint(0, 2))]
    return {rng.choice(["k", "l", ""]): _concrete(rng, d - 1) for _ in range(rng.randint(0, 2))}


# ---------------------------------------------------------------------------------------------
def _leaf(kind, bounds, maxlen=None):
    """bounds = (largest |int|, max length of byte / unicode strings)."""
    ib, bl = bounds
    if maxlen is None:
        maxlen = bl
    if kind == "I":
        v = fresh(int, "i")
        assume(-ib <= v <= ib)
        return v
    if kind == "B":
        v = fresh(bytes, "b")
        assume(len(v) <= maxlen)
        return v
    v = fresh(str, "s")
    assume(len(v) <= maxlen)
    assume(all(ord(c) < (128 if kind == "K" else 256) for c in v))
    return v


def build(shape, digits):
    """-> the structure with fresh symbolic leaves."""
    if isinstance(shape, str):
        return _leaf(shape, digits)
    kind = shape[0]
    if kind == "L":
        return [build(s, digits) for s in shape[1:]]
    if kind == "T":
        return tuple(build(s, digits) for s in shape[1:])
    d = {}
    for keykind, vs in shape[1:]:
        k = _leaf("K" if keykind == "S" else keykind, digits, 1)  # str keys: one ASCII character at most
        d[k] = build(vs, digits)
    return d


def canon(x):
    """Identity of a structure up to the two identifications the property allows."""
    if isinstance(x, str):
        return ("b", x.encode("utf-8"))
    if isinstance(x, bytes):
        return ("b", x)
    if isinstance(x, bool):
        raise TypeError("bool")
    if isinstance(x, int):
        return ("i", x)
    if isinstance(x, (list, tuple)):
        return ("l", tuple(canon(i) for i in x))
    if isinstance(x, dict):
        items = [(canon(k)[1], canon(v)) for k, v in x.items()]
        return ("d", tuple(sorted(items)))
    raise TypeError(type(x))


def _encodable(x):
    """A dict whose str and bytes keys coincide after UTF-8 encoding has no canonical form; bencode must reject it
    or the caller never builds it: skip (the property speaks of string-keyed mappings)."""
    if isinstance(x, dict):
        ks = [canon(k)[1] for k in x]
        if len(set(ks)) != len(ks):
            return False
        return all(_encodable(v) for v in x.values())
    if isinstance(x, (list, tuple)):
        return all(_encodable(v) for v in x)
    return True


def _pool(name):
    return {"depth1": DEPTH1, "leafy": _LEAFY}.get(name) or list(range(len(SHAPES)))


def c14_injective(k: int) -> bool:
    """
    post: _
    """
    def body():
        si, digits, pool = SL()
        x = build(SHAPES[si], digits)
        ys = _pool(pool)
        y = build(SHAPES[ys[choose(len(ys), "shape_y")]], digits)
        assume(_encodable(x) and _encodable(y))
        ex = bc.bencode(x)
        ey = bc.bencode(y)
        if ex == ey:
            return canon(x) == canon(y)
        return True
    return guard(body, k=k)


def c14_roundtrip(k: int) -> bool:
    """
    post: _
    """
    def body():
        si, digits = SL()
        x = build(SHAPES[si], digits)
        assume(_encodable(x))
        back = bc.bdecode(bc.bencode(x))
        return canon(back) == canon(x) and _decoded_types_ok(back)
    return guard(body, k=k)


def _decoded_types_ok(v):
    if isinstance(v, list):
        return all(_decoded_types_ok(i) for i in v)
    if isinstance(v, dict):
        return all(isinstance(k, (str, bytes)) and _decoded_types_ok(x) for k, x in v.items())
    return isinstance(v, (int, str, bytes)) and not isinstance(v, bool)


_PERMS = {2: [(0, 1), (1, 0)], 3: [(0, 1, 2), (0, 2, 1), (1, 0, 2), (1, 2, 0), (2, 0, 1), (2, 1, 0)]}


def c14_key_order(k: int) -> bool:
    """
    post: _
    """
    def body():
        n = SL()
        b = (1, 1)
        keys = [_leaf("K", b, 1) for _ in range(n)]
        assume(all(keys[i] != keys[j] for i in range(n) for j in range(i)))
        vals = [_leaf("I", b) for _ in range(n)]
        items = list(zip(keys, vals))
        p = _PERMS[n][choose(len(_PERMS[n]), "perm")]
        a = bc.bencode({k: v for k, v in items})
        b2 = bc.bencode({items[i][0]: items[i][1] for i in p})
        nested = bc.bencode([{items[i][0]: items[i][1] for i in p}]) == bc.bencode([dict(items)])
        return a == b2 and nested
    return guard(body, k=k)


BAD = [True, False, None, 1.5, {1, 2}.__class__]  # the last one: a type object (not encodable)


def c14_rejects(k: int) -> bool:
    """
    post: _
    """
    def body():
        bad = BAD[choose(len(BAD), "bad")]
        where = choose(6, "where")
        good = _leaf("I", (1, 1))
        key = "k"
        if where == 0:
            x = bad
        elif where == 1:
            x = [good, bad]
        elif where == 2:
            x = {key: bad}
        elif where == 3:
            x = [[bad], good]
        elif where == 4:
            x = {key: [good, {key: bad}]}
        else:
            if bad is None or isinstance(bad, (bool, float)):
                x = {bad: good}  # non-string key
            else:
                x = {3: good}
        try:
            bc.bencode(x)
        except TypeError:
            return True
        return False
    return guard(body, k=k)


def c14_hash_struct(k: int) -> bool:
    """
    post: _
    """
    def body():
        # hash_struct feeds exactly bencode(struct) to the digest: two record pre-images with different tags or
        # fields reach the digest as different byte strings
        H = importlib.import_module("redun.hashing")
        seen = []

        class Rec:
            def __init__(self, length=40):
                pass

            def update(self, data):
                seen.append(data)

            def hexdigest(self):
                return "x"
        real = H.Hash
        H.Hash = Rec
        try:
            t1, t2 = _leaf("K", (2, 1)), _leaf("K", (2, 1))
            a, b = _leaf("I", (2, 1)), _leaf("I", (2, 1))
            H.hash_struct([t1, a, [b]])
            H.hash_struct([t2, b, [a]])
        finally:
            H.Hash = real
        if seen[0] == seen[1]:
            return t1.encode() == t2.encode() and a == b
        return True
    return guard(body, k=k)


_ALL = list(range(len(SHAPES)))
_DICTY = [i for i in _ALL if "'D', (" in repr(SHAPES[i])]
_TWO = [7, 8, 9, 21]  # skeletons with two independent multi-valued leaves
_RT_Q = [(i, (1, 1) if i in _DICTY else ((3, 1) if i in _TWO else (12, 2))) for i in _ALL if i not in (13, 14)]
_RT_T = [(i, (2, 1) if i in _DICTY else (12, 2)) for i in _ALL] + [(i, (12, 1)) for i in _DICTY if i not in (13, 14)] \
    + [(i, (120, 2)) for i in (0, 4)] + [(i, (12, 3)) for i in (1, 2, 5, 6)] + [(0, (10 ** 4, 1))]
_LEAFY = [0, 1, 2, 3, 4, 5, 10, 11]
CONDITIONS = [
    Condition(c14_roundtrip, slices=_RT_Q, thorough_slices=_RT_T, timeout=170, thorough_timeout=1200,
              bounds="slice = (skeleton, (int bound, max string length)); bdecode(bencode(x)) == x up to str/bytes and "
                     "list/tuple for every skeleton in %r with symbolic leaves (dict keys: <= 1 ASCII character); this left "
                     "inverse implies injectivity within the same bounds" % (SHAPES,)),
    Condition(c14_injective, slices=[(i, (1, 1), "leafy") for i in (0, 1, 3, 4)],
              thorough_slices=[(i, (1, 1), "leafy") for i in _LEAFY] + [(i, (1, 1), "depth1") for i in DEPTH1],
              timeout=170, thorough_timeout=1200,
              bounds="slice = (skeleton of x, leaf bounds, pool of skeletons for y); y's skeleton chosen by the solver; equal "
                     "encodings => equal structures, directly on pairs (small leaf bounds; the general case is c14_roundtrip)"),
    Condition(c14_key_order, slices=[2], thorough_slices=[2, 3], timeout=170, thorough_timeout=1200,
              bounds="n = slice distinct symbolic one-character keys, every insertion order, top level and nested"),
    Condition(c14_rejects, timeout=120, bounds="bool / None / float / type object at top level, in a list, as dict value, "
                                             "nested, and as dict key"),
    Condition(c14_hash_struct, timeout=120, thorough_timeout=600,
              bounds="hash_struct -> bytes handed to the digest, symbolic tag and fields"),
]


# ---------------------------------------------------------------------------------------------
def _rebuild(shape, it, digits):
    if isinstance(shape, str):
        return next(it)[1]
    kind = shape[0]
    if kind == "L":
        return [_rebuild(s, it, digits) for s in shape[1:]]
    if kind == "T":
        return tuple(_rebuild(s, it, digits) for s in shape[1:])
    d = {}
    for keykind, vs in shape[1:]:
        k = next(it)[1]
        d[k] = _rebuild(vs, it, digits)
    return d


def replay(cond, args, extra):
    """Stock io.BytesIO, CPython."""
    import io
    bc.BytesIO = io.BytesIO
    it = iter(extra["choices"])
    if cond == "c14_injective":
        si, digits, pool = extra["slice"]
        x = _rebuild(SHAPES[si], it, digits)
        ys = _pool(pool)
        y = _rebuild(SHAPES[ys[next(it)[1]]], it, digits)
        if not (_encodable(x) and _encodable(y)):
            return False, "not encodable"
        if bc.bencode(x) == bc.bencode(y) and canon(x) != canon(y):
            return True, "bencode(%r) == bencode(%r) == %r although the structures differ" % (x, y, bc.bencode(x)), None
        return False, "%r / %r encode differently or are the same structure" % (x, y)
    if cond == "c14_roundtrip":
        si, digits = extra["slice"]
        x = _rebuild(SHAPES[si], it, digits)
        if not _encodable(x):
            return False, "not encodable"
        try:
            back = bc.bdecode(bc.bencode(x))
        except Exception as e:
            return True, "bdecode(bencode(%r)) raised %s: %s" % (x, type(e).__name__, e), None
        if canon(back) != canon(x) or not _decoded_types_ok(back):
            return True, "bdecode(bencode(%r)) = %r" % (x, back), None
        return False, "%r round-trips" % (x,)
    if cond == "c14_key_order":
        n = extra["slice"]
        vals = [next(it)[1] for _ in range(2 * n)]
        p = _PERMS[n][next(it)[1]]
        items = list(zip(vals[:n], vals[n:]))
        a = bc.bencode(dict(items))
        b = bc.bencode({items[i][0]: items[i][1] for i in p})
        if a != b:
            return True, "insertion order %r changes the encoding: %r vs %r" % (p, a, b), None
        return False, "same"
    if cond == "c14_rejects":
        bad = BAD[next(it)[1]]
        where = next(it)[1]
        good = next(it)[1]
        key = "k"
        x = [bad, [good, bad], {key: bad}, [[bad], good], {key: [good, {key: bad}]},
             ({bad: good} if bad is None or isinstance(bad, (bool, float)) else {3: good})][where]
        try:
            out = bc.bencode(x)
        except TypeError:
            return False, "rejected"
        except Exception as e:
            return True, "bencode(%r) raised %s instead of TypeError" % (x, type(e).__name__), None
        return True, "bencode(%r) = %r (a non-encodable value was encoded)" % (x, out), None
    if cond == "c14_hash_struct":
        import hashlib
        H = importlib.import_module("redun.hashing")
        t1, t2, a, b = [next(it)[1] for _ in range(4)]
        h1, h2 = H.hash_struct([t1, a, [b]]), H.hash_struct([t2, b, [a]])
        want1 = hashlib.sha512(bc.bencode([t1, a, [b]])).hexdigest()[:40]
        if h1 != want1 or ((h1 == h2) and not (t1 == t2 and a == b)):
            return True, "hash_struct does not hash bencode(struct): %r %r" % (h1, want1), None
        return False, "ok"
    return None, "unknown condition"
