"""C35 — Configuration survives conversion to a dictionary and back.

Real code executed symbolically: redun.config.Config (read_dict, _parse_sections, get_config_dict),
RedunExtendedInterpolation.before_get and CPython's pure-Python configparser underneath.
"""
import configparser
import os

import redun.cli
import redun.config as C
from vp.core import SL, Condition, choose, guard

PROPERTY = "C35"
FUNCTIONS = [
    "redun.config.Config.__init__", "redun.config.Config.read_dict", "redun.config.Config._parse_sections",
    "redun.config.Config.get_config_dict", "redun.config.RedunExtendedInterpolation.before_get",
    "configparser.ExtendedInterpolation._interpolate_some (CPython, pure Python)",
]
ASSUMPTIONS = [
    "redun.cli.get_config_dir stubbed to the fixed directory '/d' (the search of the file system is not the subject)",
    "os.environ as seen by redun.config is the fixed mapping {'E': 'v$w'} (one variable whose value contains a dollar)",
    "option values longer than the bound and multi-line values are outside the claim",
]

CONFIG_DIR = "/d"
_ENV = {"E": "v$w"}
# Characters that steer interpolation ($ { } :), the config dir ('/', 'd'), the env var name and a neutral one.
_ALPHA = "${}:/dEkx"
_SECTION_SETS = [
    ["s"],
    ["a.b"],
    ["a.b", "a.c"],
    ["a.b.c", "a.d"],
    ["a.b", "a"],  # a plain section after a dotted section with the same head
    ["DEFAULT", "a.b"],  # inherited defaults (first entry carries k=v, so a.b sees it through [DEFAULT])
    ["a.b", "DEFAULT"],  # a default (k2=w) next to a section-local value
]


class _Environ(dict):
    pass


def install():
    redun.cli.get_config_dir = lambda config_dir=None: CONFIG_DIR
    C.os = _OsShim()


class _OsShim:
    """`os` as seen from redun.config, with a fixed environment."""
    environ = _ENV
    path = os.path
    getcwd = staticmethod(os.getcwd)


def _view(obj):
    """Nested sections -> plain nested dict of effective (interpolated) values."""
    if isinstance(obj, configparser.SectionProxy):
        return {k: v for k, v in obj.items()}
    return {k: _view(obj[k]) for k in obj.keys()}


def _in_alpha(s: str) -> bool:
    return all(c in _ALPHA for c in s)


def _build(sections, v, w):
    d = {}
    for i, name in enumerate(sections):
        d[name] = {"k": v, "other": "x"} if i == 0 else {"k2": w}
    return d


def _roundtrip(v: str, w: str, which: int, replace, newdir: str = "/R") -> bool:
    sections = _SECTION_SETS[which]
    try:
        c = C.Config(config_dict=_build(sections, v, w))
        before = _view(c)
    except (configparser.Error, ValueError, TypeError):
        return True  # the source configuration itself is not readable: outside the property
    if not replace:
        c2 = C.Config(config_dict=c.get_config_dict())
        return _view(c2) == before
    d = c.get_config_dict(replace_config_dir=newdir)
    c2 = C.Config(config_dict=d)
    for name in c.parser.sections():
        for k, eff in c.parser[name].items():
            got = c2.parser[name][k]
            # only values that contain the local config dir are rewritten (and exactly that part of them)
            want = eff.replace(CONFIG_DIR, newdir) if CONFIG_DIR in eff else eff
            if got != want:
                return False
    return c2.parser.sections() == c.parser.sections()


def c35_value(v: str) -> bool:
    """
    pre: len(v) == SL()[0] and v.startswith(SL()[1]) and _in_alpha(v)
    post: _
    """
    return guard(lambda: _roundtrip(v, "y", 1, False), v=v)


def c35_sections(v: str, w: str) -> bool:
    """
    pre: len(v) <= 2 and len(w) <= 1 and _in_alpha(v) and _in_alpha(w)
    post: _
    """
    return guard(lambda: _roundtrip(v, w, choose(len(_SECTION_SETS), "sections"), False), v=v, w=w)


def c35_replace_dir(v: str, r: str) -> bool:
    """
    pre: len(v) == SL()[0] and v.startswith(SL()[1]) and _in_alpha(v)
    pre: 1 <= len(r) <= SL()[2] and _in_alpha(r)
    post: _
    """
    return guard(lambda: _roundtrip(v, "/d/e", 2, True, r), v=v, r=r)


_Q = [(0, ""), (1, ""), (2, ""), (3, "$"), (3, "/"), (3, "x")]
_T = [(0, ""), (1, ""), (2, "")] + [(3, ch) for ch in _ALPHA] + [(4, a + b) for a in "$/x" for b in "${/d"] + [(4, "${E}")]
CONDITIONS = [
    Condition(c35_value, slices=_Q, thorough_slices=_T, timeout=120, thorough_timeout=900,
              bounds="option value v: every str of slice[0] chars with prefix slice[1] over the alphabet %r; one dotted "
                     "section 'a.b' with options k=v, other=x" % _ALPHA),
    Condition(c35_sections, timeout=150, thorough_timeout=900,
              bounds="section-name sets %r chosen by the solver; len(v) <= 2, len(w) <= 1 over the alphabet" % _SECTION_SETS),
    Condition(c35_replace_dir, slices=[(2, "", 2), (3, "/", 1)],
              thorough_slices=[(2, "", 2), (3, "/", 2), (3, "$", 1), (3, "d", 1), (4, "/d", 2)],
              timeout=150, thorough_timeout=900,
              bounds="get_config_dict(replace_config_dir=r) with config dir '/d'; slice = (len v, prefix of v, max len of the "
                     "symbolic replacement directory r over the same alphabet, so r may contain '$')"),
]


def replay(cond, args, extra):
    install()
    v = args["v"]
    if cond == "c35_value":
        which, w, rep = 1, "y", False
    elif cond == "c35_sections":
        which, w, rep = extra["choices"][0][1], args["w"], False
    else:
        which, w, rep = 2, "/d/e", True
    newdir = args.get("r", "/R")
    sections = _SECTION_SETS[which]
    try:
        c = C.Config(config_dict=_build(sections, v, w))
        before = _view(c)
    except (configparser.Error, ValueError, TypeError) as e:
        return False, "source config unreadable (%s)" % type(e).__name__
    try:
        ok = _roundtrip(v, w, which, rep, newdir)
    except Exception as e:
        return True, "v=%r sections=%r: round trip raised %s: %s" % (v, sections, type(e).__name__, e), _classify(v)
    if not ok:
        return True, "v=%r w=%r sections=%r replace=%s: effective values differ after the round trip (before=%r, dict=%r)" % (
            v, w, sections, rep, before, c.get_config_dict(newdir if rep else None)), _classify(v)
    return False, "v=%r ok" % (v,)


def _classify(v):
    return "dollar-not-reescaped" if "$" in v else None
