"""C13 — Promises settle once and notify every callback exactly once.

Real code executed symbolically (fully traced, no stubs): redun.promise.Promise.__init__/do_resolve/
do_reject/_notify/then/catch/all and redun.promise.wait_promises.  The operation sequence is a
vector of lazily created solver variables; the oracle is a reference model of the statement.
"""
import importlib

from vp.core import SL, Condition, choose, excluded, guard

P = importlib.import_module("redun.promise")

PROPERTY = "C13"
FUNCTIONS = ["redun.promise.Promise.__init__", "redun.promise.Promise.do_resolve", "redun.promise.Promise.do_reject",
             "redun.promise.Promise._notify", "redun.promise.Promise.then", "redun.promise.Promise.catch",
             "redun.promise.Promise.all", "redun.promise.wait_promises", "redun.promise.Promise.value/error"]
ASSUMPTIONS = [
    "single-threaded use (the class is documented as a single-thread implementation)",
    "operation sequences longer than the stated number of steps and more than the stated number of inputs are outside",
]


class Err(Exception):
    def __init__(self, tag):
        super().__init__(tag)
        self.tag = tag

    def __eq__(self, other):
        return isinstance(other, Err) and other.tag == self.tag

    def __hash__(self):
        return hash(self.tag)

    def __repr__(self):
        return "Err(%r)" % (self.tag,)


# ---------------------------------------------------------------------------------------------
# Reference model of the statement


class Ref:
    """first settlement wins; callbacks run exactly once, after settlement, in registration order;
    a chained promise adopts what its callback returns / raises."""

    def __init__(self):
        self.state = "P"
        self.val = None
        self.cbs = []
        self.flushing = False

    def settle(self, state, val):
        if self.state != "P":
            return
        self.state, self.val = state, val
        self.flush()

    def flush(self):
        if self.flushing or self.state == "P":
            return
        self.flushing = True
        while self.cbs:
            ok, err, child = self.cbs.pop(0)
            f = ok if self.state == "F" else err
            if f is None:
                child.settle(self.state, self.val)
                continue
            try:
                r = f(self.val)
            except Exception as e:
                child.settle("R", e)
                continue
            if isinstance(r, Ref):
                r.then(lambda v, c=child: c.settle("F", v), lambda e, c=child: c.settle("R", e))
            else:
                child.settle("F", r)
        self.flushing = False

    def then(self, ok=None, err=None):
        child = Ref()
        self.cbs.append((ok, err, child))
        self.flush()
        return child


class RefApi:
    new = Ref
    resolve = staticmethod(lambda p, v: p.settle("F", v))
    reject = staticmethod(lambda p, e: p.settle("R", e))
    then = staticmethod(lambda p, a=None, b=None: p.then(a, b))
    catch = staticmethod(lambda p, b: p.then(None, b))
    state = staticmethod(lambda p: (p.state, p.val))


def _real_state(p):
    if p.is_pending:
        assert p.is_fulfilled is None and p.is_rejected is None
        return ("P", None)
    assert bool(p.is_fulfilled) != bool(p.is_rejected)
    if p.is_fulfilled:
        return ("F", p.value)
    return ("R", p.error)


class RealApi:
    new = staticmethod(lambda: P.Promise())
    resolve = staticmethod(lambda p, v: p.do_resolve(v))
    reject = staticmethod(lambda p, e: p.do_reject(e))
    then = staticmethod(lambda p, a=None, b=None: p.then(a, b))
    catch = staticmethod(lambda p, b: p.catch(b))
    state = staticmethod(_real_state)


# ---------------------------------------------------------------------------------------------
# P1: one root promise, chains, re-entrancy

OPS = ["resolve", "reject", "then_value", "then_raise", "catch_value", "then_both", "then_pending", "settle_pending_ok",
       "settle_pending_err", "then_settled_promise", "then_reentrant_register", "then_reentrant_settle", "chain_last",
       "catch_raise"]
NO_REENTRANT_REGISTER = [i for i, o in enumerate(OPS) if o != "then_reentrant_register"]


def run_ops(api, ops):
    """Execute an operation sequence against an API.

    Returns (runs, states): runs[label of promise] = [(callback id, argument), ...] in the order the callbacks
    registered on that promise ran; states[label] = final state of every promise created.  Promises are labelled by
    what created them (not by creation time), so that the comparison does not depend on the relative order of
    callbacks registered on *different* promises, which the statement leaves open.
    """
    runs = {}
    root = api.new()
    made = {"root": root}
    pendings = {}
    nid = [0]
    last = ["root"]

    def ran(on, i, arg):
        runs.setdefault(on, []).append((i, arg))

    def cb_value(arg, i, on):
        ran(on, i, arg)
        return ("r", i)

    def cb_raise(arg, i, on):
        ran(on, i, arg)
        raise Err(("cb", i))

    def cb_pending(arg, i, on):
        ran(on, i, arg)
        q = api.new()
        pendings[i] = q
        made[("pend", i)] = q
        return q

    def cb_settled(arg, i, on):
        ran(on, i, arg)
        q = api.new()
        api.reject(q, Err(("pre", i)))
        made[("pre", i)] = q
        return q

    def cb_reg(arg, i, on):
        ran(on, i, arg)
        j = nid[0]
        nid[0] += 1
        made[("q", j)] = api.then(root, lambda a, j=j: cb_value(a, j, "root"), lambda a, j=j: cb_value(a, j, "root"))
        return ("r", i)

    def cb_settle_again(arg, i, on):
        ran(on, i, arg)
        api.resolve(root, ("again", i))
        api.reject(root, Err(("again", i)))
        return ("r", i)

    for step, op in enumerate(ops):
        name = OPS[op]
        i = nid[0]
        if name == "resolve":
            api.resolve(root, ("v", step))
        elif name == "reject":
            api.reject(root, Err(("e", step)))
        elif name == "settle_pending_ok":
            if pendings:
                api.resolve(pendings.pop(min(pendings)), ("pv", step))
        elif name == "settle_pending_err":
            if pendings:
                api.reject(pendings.pop(min(pendings)), Err(("pe", step)))
        else:
            nid[0] += 1
            on = "root"
            if name == "then_value":
                q = api.then(root, lambda a, i=i: cb_value(a, i, "root"))
            elif name == "then_raise":
                q = api.then(root, lambda a, i=i: cb_raise(a, i, "root"))
            elif name == "catch_value":
                q = api.catch(root, lambda a, i=i: cb_value(a, i, "root"))
            elif name == "catch_raise":
                q = api.catch(root, lambda a, i=i: cb_raise(a, i, "root"))
            elif name == "then_both":
                q = api.then(root, lambda a, i=i: cb_value(a, i, "root"), lambda a, i=i: cb_raise(a, i, "root"))
            elif name == "then_pending":
                q = api.then(root, lambda a, i=i: cb_pending(a, i, "root"), lambda a, i=i: cb_pending(a, i, "root"))
            elif name == "then_settled_promise":
                q = api.then(root, lambda a, i=i: cb_settled(a, i, "root"))
            elif name == "then_reentrant_register":
                q = api.then(root, lambda a, i=i: cb_reg(a, i, "root"), lambda a, i=i: cb_reg(a, i, "root"))
            elif name == "then_reentrant_settle":
                q = api.then(root, lambda a, i=i: cb_settle_again(a, i, "root"), lambda a, i=i: cb_settle_again(a, i, "root"))
            else:  # chain_last: register on the promise returned by the previous registration
                on = last[0]
                q = api.then(made[on], lambda a, i=i, on=on: cb_value(a, i, on), lambda a, i=i, on=on: cb_raise(a, i, on))
            made[("q", i)] = q
            last[0] = ("q", i)
    states = {label: api.state(p) for label, p in made.items()}
    return runs, states


def _same_multiset(a, b):
    return len(a) == len(b) and all(a.count(x) == b.count(x) for x in a)


def _agree(real, ref, ordered):
    (runs1, st1), (runs2, st2) = real, ref
    if st1 != st2:
        return False
    if set(runs1) != set(runs2):
        return False
    for label in runs1:
        if ordered:
            if runs1[label] != runs2[label]:
                return False
        elif not _same_multiset(runs1[label], runs2[label]):
            return False
    return True


REDUCED = [OPS.index(o) for o in ("resolve", "reject", "then_value", "then_raise", "catch_value", "then_pending",
                                   "settle_pending_ok", "then_reentrant_register", "chain_last")]
_REG = OPS.index("then_reentrant_register")


def _allowed(alphabet):
    return list(range(len(OPS))) if alphabet == "all" else list(REDUCED)


def _p1(nsteps, first, allowed, ordered=True):
    ops = list(first)
    while len(ops) < nsteps:
        ops.append(allowed[choose(len(allowed), "op")])
    if ordered and excluded("reentrant-registration-order") and _REG in ops:
        # listed known finding: for sequences that register re-entrantly the order of runs is not compared
        ordered = False
    real = run_ops(RealApi, ops)
    ref = run_ops(RefApi, ops)
    return _agree(real, ref, ordered)


def c13_ops(k: int) -> bool:
    """
    post: _
    """
    def body():
        n, first, alphabet = SL()
        return _p1(n, list(first), _allowed(alphabet))
    return guard(body, k=k)


def c13_ops_reentrant(k: int) -> bool:
    """
    post: _
    """
    def body():
        # with re-entrant registration allowed: everything except the relative order of callback runs
        n, first, alphabet = SL()
        return _p1(n, list(first), _allowed(alphabet), ordered=False)
    return guard(body, k=k)


# ---------------------------------------------------------------------------------------------
# P2: Promise.all / wait_promises

KINDS = ["pending_then_ok", "pending_then_err", "already_ok", "already_err", "alias_of_first", "never"]


def run_all(n, kinds, pick, which):
    """which: 'all' | 'wait'; pick(m) chooses which of the m still-pending inputs settles next.
    Returns (inputs, outer state after subscription and after each settlement, outer callbacks seen, picks)."""
    ins = []
    later = []
    for i in range(n):
        k = KINDS[kinds[i]]
        if k == "alias_of_first" and i > 0:
            ins.append(ins[0])
            continue
        p = P.Promise()
        if k == "already_ok":
            p.do_resolve(("ok", i))
        elif k == "already_err":
            p.do_reject(Err(("err", i)))
        elif k in ("pending_then_ok", "pending_then_err") or (k == "alias_of_first" and i == 0):
            later.append((i, p, k != "pending_then_err"))
        ins.append(p)
    outer = P.Promise.all(ins) if which == "all" else P.wait_promises(ins)
    seen = []
    outer.then(lambda v: seen.append(("F", v)), lambda e: seen.append(("R", e)))
    trace = [_real_state(outer)]
    picks = []
    while later:
        j = pick(len(later))
        picks.append(j)
        i, p, ok = later.pop(j)
        if ok:
            p.do_resolve(("ok", i))
        else:
            p.do_reject(Err(("err", i)))
        trace.append(_real_state(outer))
    return ins, trace, seen, picks


def model_all(n, kinds, picks, which):
    """Reference: simulate input settlement times, compute the expected outer trace."""
    state = {}
    order_of_settle = []
    ident = []
    later = []
    for i in range(n):
        k = KINDS[kinds[i]]
        if k == "alias_of_first" and i > 0:
            ident.append(ident[0])
            continue
        ident.append(i)
        if k == "already_ok":
            state[i] = ("F", ("ok", i))
            order_of_settle.append(i)
        elif k == "already_err":
            state[i] = ("R", Err(("err", i)))
            order_of_settle.append(i)
        elif k in ("pending_then_ok", "pending_then_err") or (k == "alias_of_first" and i == 0):
            later.append((i, k != "pending_then_err"))
            state[i] = ("P", None)
        else:
            state[i] = ("P", None)

    def outer():
        sts = [state[ident[i]] for i in range(n)]
        if which == "wait":
            return "F" if all(s[0] != "P" for s in sts) else "P"
        rej = [i for i in order_of_settle if state[i][0] == "R" and i in ident]
        if rej:
            return ("R", state[rej[0]][1])
        if all(s[0] == "F" for s in sts):
            return ("F", [s[1] for s in sts])
        return ("P", None)

    trace = [outer()]
    for j in picks:
        i, ok = later.pop(j)
        state[i] = ("F", ("ok", i)) if ok else ("R", Err(("err", i)))
        order_of_settle.append(i)
        trace.append(outer())
    return trace


def _check_all(n, kinds, ins, trace, seen, picks, which):
    want = model_all(n, kinds, picks, which)
    if which == "wait":
        if [t[0] for t in trace] != want:
            return False
        if trace[-1][0] == "F" and list(trace[-1][1]) != list(ins):
            return False
    elif trace != want:
        return False
    # the outer promise's callbacks fire at most once, and once iff it settled
    return len(seen) == (0 if trace[-1][0] == "P" else 1)


def _p2(n, which):
    kinds = [choose(len(KINDS), "kind") for _ in range(n)]
    ins, trace, seen, picks = run_all(n, kinds, lambda m: choose(m, "pick"), which)
    return _check_all(n, kinds, ins, trace, seen, picks, which)


def c13_all(k: int) -> bool:
    """
    post: _
    """
    return guard(lambda: _p2(SL(), "all"), k=k)


def c13_wait(k: int) -> bool:
    """
    post: _
    """
    return guard(lambda: _p2(SL(), "wait"), k=k)


def _ctor(kind):
    def f(resolve, reject):
        if kind == 0:
            resolve(1)
            reject(Err("late"))
        elif kind == 1:
            reject(Err("first"))
            resolve(2)
        elif kind == 2:
            raise Err("boom")
        elif kind == 3:
            resolve(3)
            raise Err("after")
    p = P.Promise(f)
    want = [("F", 1), ("R", Err("first")), ("R", Err("boom")), ("F", 3), ("P", None)][kind]
    return _real_state(p), want


def c13_constructor(k: int) -> bool:
    """
    post: _
    """
    def body():
        got, want = _ctor(choose(5, "ctor"))
        return got == want
    return guard(body, k=k)


_NOPS = len(OPS)
CONDITIONS = [
    Condition(c13_ops, slices=[(3, (a,), "all") for a in range(_NOPS)] + [(4, (a,), "reduced") for a in REDUCED],
              thorough_slices=[(4, (a,), "all") for a in range(_NOPS)] + [(5, (a, b), "reduced") for a in REDUCED for b in REDUCED],
              timeout=170, thorough_timeout=900,
              bounds="slice = (number of steps, fixed first operations, alphabet); remaining steps chosen by the solver. "
                     "alphabet 'all' = %r, 'reduced' = %r. quick: every 3-step sequence over all ops and every 4-step "
                     "sequence over the reduced ops; thorough: every 4-step sequence over all ops, every 5-step sequence "
                     "over the reduced ops" % (OPS, [OPS[i] for i in REDUCED])),
    Condition(c13_ops_reentrant, slices=[(3, (_REG,), "all"), (4, (_REG,), "reduced")],
              thorough_slices=[(4, (a,), "all") for a in range(_NOPS)], timeout=170, thorough_timeout=900,
              bounds="as c13_ops with re-entrant registration; compares which callbacks ran on which promise with which "
                     "arguments and all final promise states, but not the relative order of runs"),
    Condition(c13_all, slices=[0, 1, 2, 3], thorough_slices=[0, 1, 2, 3, 4], timeout=170, thorough_timeout=900,
              bounds="Promise.all over n = slice inputs, each of kind %r, every settle order" % KINDS),
    Condition(c13_wait, slices=[0, 1, 2, 3], thorough_slices=[0, 1, 2, 3, 4], timeout=170, thorough_timeout=900,
              bounds="wait_promises over n = slice inputs, same kinds and orders"),
    Condition(c13_constructor, timeout=30, bounds="Promise(func) with func resolving / rejecting / raising"),
]


def replay(cond, args, extra):
    ch = [c[1] for c in extra["choices"]]
    if cond in ("c13_ops", "c13_ops_reentrant"):
        n, first, alphabet = extra["slice"]
        ops = list(first)
        it = iter(ch)
        allowed = _allowed(alphabet)
        while len(ops) < n:
            ops.append(allowed[next(it)])
        real = run_ops(RealApi, ops)
        ref = run_ops(RefApi, ops)
        names = [OPS[o] for o in ops]
        bad = not _agree(real, ref, ordered=(cond == "c13_ops"))
        if bad:
            fid = None
            if "then_reentrant_register" in names and _agree(real, ref, ordered=False):
                fid = "reentrant-registration-order"
            return True, "ops=%r\n real runs=%r states=%r\n model runs=%r states=%r" % (names, real[0], real[1], ref[0], ref[1]), fid
        return False, "ops=%r agree" % (names,)
    if cond in ("c13_all", "c13_wait"):
        n = extra["slice"]
        kinds, picks = ch[:n], list(ch[n:])
        which = "all" if cond == "c13_all" else "wait"
        it = iter(picks)
        ins, trace, seen, picks2 = run_all(n, kinds, lambda m: next(it), which)
        if not _check_all(n, kinds, ins, trace, seen, picks2, which):
            return True, "%s kinds=%r settle picks=%r: outer trace %r, model %r, outer callbacks fired %d" % (
                which, [KINDS[k] for k in kinds], picks2, trace, model_all(n, kinds, picks2, which), len(seen)), None
        return False, "agree"
    got, want = _ctor(ch[0])
    return got != want, "Promise(func) kind %d: state %r, expected %r" % (ch[0], got, want), None
