"""C06 — Each distinct call runs at most once per execution.

SchedLab (stub S6, see vp/stubs/schedlab.py and vp/harness/c08.py): real Scheduler + SQLite backend, symbolic limit /
demand, workflow shape and completion schedule as solver choice variables.  Asserted per run: every (task, evaluation
hash, context hash) is handed to the executor at most once unless the task opted out (cache_scope=NONE); all branches
that denote the same call obtain the same value or the same error; equal expressions reached from the same parent create
one job; the outcome is the one the template prescribes.  Runs with the backend cache enabled and with cache=False
(deduplication only).
"""
from vp.core import SL, Condition, choose, guard, native
from vp.harness import c08 as L
from vp.harness import c09 as T
from vp.harness import schedprog as P

PROPERTY = "C06"
FUNCTIONS = L.FUNCTIONS + ["redun.scheduler.Scheduler._check_pending_job", "Scheduler._get_cache", "Scheduler._finalize_job",
                           "Scheduler._evaluate_apply (_pending_expr)", "redun.backends.db.RedunBackendDb.check_cache (CSE branch)"]
ASSUMPTIONS = L.ASSUMPTIONS + ["jobs without provenance (prov=False) are not part of the templates",
                                "c06_reuse: a second template on the stock scheduler and executors (vp/harness/reuse.py): one call used "
                                "in a catch and reached again later as the same expression or as an equal call; task kinds plain / "
                                "cache_scope NONE / async def"]
install = L.install
B = L.BRANCH


def check_c06(lab, outcome, spec, with_bad):
    base = T.check_c09(lab, outcome, spec, with_bad, None)
    if base is not None and outcome[0] != "error":
        return base
    seen = {}
    for (name, eval_hash, args_hash, ctx, job_id, scope, prov) in lab.submissions:
        if name.endswith("leaf_nocache") or not prov:
            continue
        key = (name, eval_hash, ctx)
        if key in seen:
            return "the call %s (eval hash %s) was handed to the executor twice (jobs %s and %s)" % (
                name, str(eval_hash)[:8], seen[key][:8], job_id[:8])
        seen[key] = job_id
    if outcome[0] == "ok":
        vals = outcome[1][1:] if with_bad == 1 else outcome[1]
        by_call = {}
        for (x, fail, caught, mode), v in zip(spec, vals):
            k = (x, bool(fail), bool(caught), mode in (2,))
            if k in by_call and by_call[k] != v:
                return "two branches denoting the same call leaf(%r) got different results %r / %r" % (x, by_call[k], v)
            by_call[k] = v
        # equal expressions under one parent are evaluated once: one mid job per distinct mid call
        calls = set((0 if mode == 2 else i, x, fail, mode) for i, (x, fail, caught, mode) in enumerate(spec))
        total = sum(lab.sched._finalized_jobs.get(P.NS + ".mid", {}).values())
        if total != len(calls):
            return "%d job(s) were created for %d distinct mid call(s)" % (total, len(calls))
    return None


def c06_once(k: int) -> bool:
    """
    post: _
    """
    def body():
        n, first, early, form, mid, with_bad, menu, fixed, use_cache = SL()
        spec = L.pick_case(n, first, menu, fixed)
        mid_limits = ["r"] if mid else None
        limits, leaf_limits, _, _ = L.symbolic_limits(form)

        def run():
            lab, outcome, salt = P.run_case(spec, choose, limits, leaf_limits, mid_limits, early=early, symbolic=True,
                                            with_bad=int(with_bad), hog_limits=L._hog(limits),
                                            run_kwargs={"cache": bool(use_cache)})
            return check_c06(lab, outcome, spec, int(with_bad)) is None
        return native(run)
    return guard(body, k=k)


HOGDUP = [B[5], B[1], B[1]]  # a leaf holding the whole limit, then the same call twice
SHARED = [B[6], B[6], B[0]]  # the same non-leaf call (mid -> leaf) from two branches
_Q = [(3, f, 0, 0, 0, 0, L.NQ, None, c) for f in (0, 1, 2) for c in (1, 0)] + [
    (3, 0, 0, 0, 0, 0, 4, HOGDUP, 1), (3, 0, 0, 0, 0, 0, 4, SHARED, 0), (3, 0, 1, 0, 0, 0, 4, SHARED, 0), (3, 0, 1, 0, 0, 0, 4, SHARED, 1),
    (4, 0, 0, 0, 0, 0, 4, L.DUP4, 1), (2, 0, 2, 0, 0, 0, 4, [B[1], B[1]], 1)]
_T = [(3, f, 0, form, m, 0, len(B), None, c) for f in range(len(B)) for form in (0, 1) for m in (0, 1) for c in (1, 0)] + [
    (3, 0, e, 0, 0, 0, 4, HOGDUP, c) for e in (0, 1, 2) for c in (0, 1)] + [(3, 0, e, 0, 0, 0, 4, SHARED, c) for e in (0, 1, 2) for c in (0, 1)] + [
    (4, 0, e, 0, 1, 0, 4, L.DUP4, 1) for e in (0, 1)]
def c06_reuse(k: int) -> bool:
    """
    post: _
    """
    def body():
        from vp.harness import reuse as R
        kind_i = SL()
        second_i = choose(len(R.SECOND), "second_use")
        form_i = choose(len(R.FORMS), "form")
        return native(lambda: R.run_case(kind_i, second_i, form_i)[0])
    return guard(body, k=k)


CONDITIONS = [
    Condition(c06_reuse, slices=list(range(6)), timeout=200,
              bounds="slice = kind of the called task (plain / cache_scope NONE / async def, failing or not); the call is used in "
                     "catch(ok(x), ...) and reached a second time - as the same expression object or as a fresh equal call - in a "
                     "solver-chosen later position (cond branch caught / uncaught, second element of seq, a follow-up task, the same "
                     "sweep); stock scheduler and executors; the body must run once, one job per expression, both uses see that outcome"),
    Condition(c06_once, slices=_Q, thorough_slices=_T, timeout=200, thorough_timeout=2400,
              bounds=L.CONDITIONS[0].bounds + "; last slice field: backend cache enabled (1) or run(cache=False) (0); early mode 2 = "
                     "completions may also arrive while an event is being processed"),
]


def replay(cond, args, extra):
    if cond == "c06_reuse":
        from vp.harness import reuse as R
        ch = [c[1] for c in extra["choices"]]
        ok, detail = R.run_case(extra["slice"], ch[0], ch[1])
        return (not ok), detail, None
    sl = list(extra["slice"])
    use_cache = sl.pop()
    extra2 = dict(extra, slice=sl)
    lab, outcome, desc, spec, with_bad = _replay_case(extra2, use_cache)
    v = check_c06(lab, outcome, spec, with_bad)
    if v:
        return True, "%s, cache=%s: %s" % (desc, bool(use_cache), v), None
    return False, desc + ": every distinct call submitted at most once"


def _replay_case(extra, use_cache):
    import vp.harness.schedprog as PP
    orig = PP.run_case

    def patched(*a, **k):
        k["run_kwargs"] = {"cache": bool(use_cache)}
        return orig(*a, **k)
    PP.run_case = patched
    try:
        return L.replay_case(extra)
    finally:
        PP.run_case = orig
