"""C29 — Script tasks run exactly the given command with correct staging.

Real code: redun.scripting.get_command_eof / get_wrapped_command / prepare_command (symbolic command strings and
solver-chosen line sequences), postprocess_script's mapping function and script()'s command assembly with
StagingFile / StagingDir render_stage / render_unstage (solver-chosen output / input shapes).
"""
import importlib
import os
import shlex
import subprocess
import tempfile
from textwrap import dedent

from vp.core import SL, Condition, choose, guard, native

SC = importlib.import_module("redun.scripting")
F = importlib.import_module("redun.file")

PROPERTY = "C29"
FUNCTIONS = ["redun.scripting.get_command_eof", "redun.scripting.get_wrapped_command", "redun.scripting.prepare_command",
             "redun.scripting.postprocess_script", "redun.scripting.script (command assembly)",
             "redun.file.StagingFile.render_stage/render_unstage", "redun.file.StagingDir.render_stage/render_unstage"]
ASSUMPTIONS = [
    "the shell reads a here-document as the reference reader does (body = the lines after the <<\"eof\" line up to the first "
    "line equal to eof); this reader is checked against /bin/sh on seeded commands in the self-test of every run",
    "execution of the script, the staging copies themselves and remote file systems are outside; local file system paths only",
    "symbolic command strings up to the stated length over the stated alphabet; line menus as listed",
]

LINES = ["EOF", "EOF1", "EOF2", "EOF10", " EOF", "EOF ", "x", "", "EOF1 ", "cat <<EOF"]
ALPHA = "EOF12\n x"


def heredoc_body(wrapped, eof):
    """Reference here-document reader."""
    lines = wrapped.split("\n")
    start = lines.index('cat > "$COMMAND_FILE" <<"%s"' % eof)
    body = []
    i = start + 1
    while lines[i] != eof:
        body.append(lines[i])
        i += 1
    return "\n".join(body), lines[i + 1:]


def _wrap_ok(cmd):
    eof = SC.get_command_eof(cmd)
    if not eof.startswith("EOF"):
        return False
    if eof in cmd.split("\n"):
        return False
    w = SC.get_wrapped_command(cmd)
    body, rest = heredoc_body(w, eof)
    # the command file receives the command byte for byte, and the rest of the wrapper (chmod, run, cleanup) follows
    return body == cmd and 'chmod +x "$COMMAND_FILE"' in rest and '"$COMMAND_FILE"' in rest


def _in_alpha(s):
    return all(c in ALPHA for c in s)


_PRE = '(\n# Save command to temp file.\nCOMMAND_FILE="$(mktemp)"\ncat > "$COMMAND_FILE" <<"'
_POST = ('\n\n# Execute temp file.\nchmod +x "$COMMAND_FILE"\n"$COMMAND_FILE"\nRETCODE=$?\n\n# Remove temp file.\n'
         'rm "$COMMAND_FILE"\n\nexit $RETCODE\n)\n')


def _wrap_ok_symbolic(cmd):
    """Cheap decomposition for symbolic strings: (a) the terminator is not a line of the command; (b) the wrapper is
    exactly <fixed head><<"eof"\n<command>\n<eof><fixed tail>.  (a) and (b) give: the reference reader returns cmd."""
    eof = SC.get_command_eof(cmd)
    if not eof.startswith("EOF") or eof in cmd.split("\n"):
        return False
    return SC.get_wrapped_command(cmd) == _PRE + eof + '"\n' + cmd + "\n" + eof + _POST


def c29_wrap_symbolic(cmd: str) -> bool:
    """
    pre: len(cmd) == SL()[0] and cmd.startswith(SL()[1]) and _in_alpha(cmd)
    post: _
    """
    return guard(lambda: _wrap_ok_symbolic(cmd), cmd=cmd)


def c29_wrap_lines(k: int) -> bool:
    """
    post: _
    """
    def body():
        n = SL()
        cmd = "\n".join(LINES[choose(len(LINES), "line")] for _ in range(n))
        return native(lambda: _wrap_ok(cmd) and _wrap_ok(SC.prepare_command(cmd)))
    return guard(body, k=k)


def _prepare_ok(cmd):
    got = SC.prepare_command(cmd)
    text = dedent(cmd).strip()
    if text.startswith("#!"):
        return got == text
    return got == SC.DEFAULT_SHELL.rstrip("\n") + "\n" + text and got.startswith("#!/usr/bin/env bash\nset -exo pipefail\n")


PALPHA = "#! \nx\t"


def c29_prepare(cmd: str) -> bool:
    """
    pre: len(cmd) <= SL() and all(c in PALPHA for c in cmd)
    post: _
    """
    return guard(lambda: _prepare_ok(cmd), cmd=cmd)


# ---------------------------------------------------------------------------------------------
# outputs / inputs shapes

def _leaf(kind, tag):
    """kind -> (value placed in outputs, expected value after postprocess given stdout result R)."""
    if kind == "stdout":
        return F.File("-"), "R"
    if kind == "staging_file":
        return F.File("/remote/%s.txt" % tag).stage("local_%s.txt" % tag), ("File", "/remote/%s.txt" % tag)
    if kind == "staging_dir":
        return F.Dir("/remote/d%s" % tag).stage("local_d%s" % tag), ("Dir", "/remote/d%s" % tag)
    if kind == "abs_same_name":  # relative local name, absolute remote path that equals cwd/local
        return F.File(os.path.abspath("same_%s.txt" % tag)).stage("same_%s.txt" % tag), ("File", os.path.abspath("same_%s.txt" % tag))
    if kind == "plain_file":  # a File in outputs is self-staged by script()
        return F.File("plain_%s.txt" % tag), ("File", "plain_%s.txt" % tag)
    if kind == "self_staged":
        return F.File("s_%s.txt" % tag).stage("s_%s.txt" % tag), ("File", "s_%s.txt" % tag)
    return 42, 42


LEAVES = ["stdout", "staging_file", "staging_dir", "abs_same_name", "plain_file", "self_staged", "value"]
CONTAINERS = ["single", "list2", "dict2", "tuple_nested"]


IN_LEAVES = ["staging_file", "staging_dir", "abs_same_name", "self_staged"]


def _shape(pick, container=None, leaves=None):
    leaves = leaves or LEAVES
    c = container or CONTAINERS[pick(len(CONTAINERS), "container")]
    ks = [leaves[pick(len(leaves), "leaf")] for _ in range(1 if c == "single" else 2)]
    pairs = [_leaf(k, str(i)) for i, k in enumerate(ks)]
    vals, wants = [p[0] for p in pairs], [p[1] for p in pairs]
    if c == "single":
        return ks, vals[0], wants[0]
    if c == "list2":
        return ks, list(vals), list(wants)
    if c == "dict2":
        return ks, {"a": vals[0], "b": vals[1]}, {"a": wants[0], "b": wants[1]}
    return ks, (vals[0], [vals[1]]), (wants[0], [wants[1]])


def _norm(v):
    if isinstance(v, F.Dir):
        return ("Dir", v.path)
    if isinstance(v, F.File):
        return ("File", v.path)
    if isinstance(v, list):
        return [_norm(i) for i in v]
    if isinstance(v, tuple):
        return tuple(_norm(i) for i in v)
    if isinstance(v, dict):
        return {k: _norm(x) for k, x in v.items()}
    return v


def _post_ok(pick):
    ks, outputs, want = _shape(pick)
    got = SC.postprocess_script.func("R", outputs)
    return _norm(got) == want, "outputs %r -> %r, expected %r" % (outputs, got, want)


def c29_postprocess(k: int) -> bool:
    """
    post: _
    """
    return guard(lambda: native(lambda: _post_ok(_collect())[0]), k=k)


def _collect():
    return lambda n, label: choose(n, label)


def _staging_cmds(value, stage):
    """Expected shell text for a staging value: nothing iff local and remote paths are literally equal."""
    if value.local.path == value.remote.path:
        return ""
    src, dst = (value.remote, value.local) if stage else (value.local, value.remote)
    # the copy command text itself comes from the file system class (not the subject here); it must name source and
    # destination in that order
    text = src.filesystem.shell_copy(src.path, dst.path, recursive=isinstance(value, F.StagingDir))
    assert text and text.index(shlex.quote(src.path)) < text.rindex(shlex.quote(dst.path)), text
    return text


def _script_ok(pick, out_container, cmd_index):
    from redun.utils import iter_nested_value
    ks_in, inputs, _ = _shape(pick, "list2", IN_LEAVES)
    ks_out, outputs, want = _shape(pick, out_container)
    tempdir = pick(2, "tempdir") == 1
    cmd = ["x", "EOF", "echo hi\nEOF"][cmd_index]
    in_stagings = [v for v in iter_nested_value(inputs) if isinstance(v, F.Staging)]
    inputs_only = [v for v in iter_nested_value(inputs) if isinstance(v, F.Staging)]
    # inputs must be staging values only
    inputs = inputs_only
    expr = SC.script(cmd, inputs=inputs, outputs=outputs, tempdir=tempdir)
    full = expr.args[0]
    temp_path = expr.kwargs.get("temp_path")
    try:
        before = []
        if tempdir:
            if not temp_path:
                return False, "no temp dir"
            before.append(shlex.join(["cd", temp_path]))
        before.extend(_staging_cmds(v, True) for v in inputs)
        wrapped = SC.get_wrapped_command(SC.prepare_command(cmd))
        after = []
        for v in iter_nested_value(outputs):
            if isinstance(v, F.File) and not isinstance(v, F.Staging) and v.path != "-":
                v = v.stage(v.path)
            if isinstance(v, F.Staging):
                after.append(_staging_cmds(v, False))
        idx = full.find(wrapped)
        if idx < 0 or full.count(wrapped) != 1:
            return False, "the wrapped command does not appear exactly once in\n%s" % full
        got_before = full[:idx].split("\n")[:-1] if idx else []
        got_after = full[idx + len(wrapped):].split("\n")[1:] if len(full) > idx + len(wrapped) else []
        # every input is staged before and every output unstaged after the command (order among them is free),
        # the cd into the temp dir comes first
        if sorted(got_before) != sorted(before) or sorted(got_after) != sorted(after) or (tempdir and got_before[0] != before[0]):
            return False, "script(%r, inputs=%r, outputs=%r, tempdir=%r): before the command %r (expected %r), after it %r (expected %r)" % (
                cmd, inputs, outputs, tempdir, got_before, before, got_after, after)
        # and the value returned once the command has run has the shape of outputs
        got = SC.postprocess_script.func("R", expr.args[2])
        if _norm(got) != want:
            return False, "result shape %r expected %r" % (got, want)
        return True, "ok"
    finally:
        if temp_path and os.path.isdir(temp_path):
            os.rmdir(temp_path)


def c29_script_assembly(k: int) -> bool:
    """
    post: _
    """
    return guard(lambda: native(lambda: _script_ok(_collect(), SL()[0], SL()[1])[0]), k=k)


CONDITIONS = [
    Condition(c29_wrap_symbolic, slices=[(0, ""), (1, ""), (2, ""), (3, ""), (4, "E"), (4, "\n"), (4, "x")],
              thorough_slices=[(0, ""), (1, ""), (2, ""), (3, "")] + [(4, c) for c in ALPHA] + [(5, a + b) for a in "E\n" for b in ALPHA]
              + [(7, "EOF\nEO"), (8, "EOF\nEOF"), (8, "EOF1\nEO"), (9, "EOF1\nEOF")],
              timeout=170, thorough_timeout=1500,
              bounds="slice = (length, fixed prefix): every command string of that length and prefix over the alphabet %r" % ALPHA),
    Condition(c29_wrap_lines, slices=[1, 2, 3], thorough_slices=[1, 2, 3, 4], timeout=170, thorough_timeout=1500,
              bounds="commands of n = slice lines, each from %r; raw and after prepare_command" % (LINES,)),
    Condition(c29_prepare, slices=[3], thorough_slices=[3, 4], timeout=170, thorough_timeout=1200,
              bounds="prepare_command on every string of length <= slice over %r" % PALPHA),
    Condition(c29_postprocess, timeout=120, bounds="outputs = %r of leaves %r" % (CONTAINERS, LEAVES)),
    Condition(c29_script_assembly, slices=[(c, i) for c in CONTAINERS for i in (1,)],
              thorough_slices=[(c, i) for c in CONTAINERS for i in (0, 1, 2)], timeout=170, thorough_timeout=900,
              bounds="slice = (outputs container, command index); script(cmd, inputs, outputs, tempdir): inputs a list of 2 "
                     "staging values from %r, outputs leaves from LEAVES, tempdir on/off" % (IN_LEAVES,)),
]


def self_test(seed):
    """The reference here-document reader agrees with /bin/sh: run wrapped commands whose interpreter is /bin/cat."""
    import random
    rng = random.Random(seed)
    n = 0
    for _ in range(12):
        lines = [rng.choice(LINES + ["y z", "$HOME `x`"]) for _ in range(rng.randint(0, 4))]
        cmd = "#!/bin/cat\n" + "\n".join(lines)
        w = SC.get_wrapped_command(cmd)
        out = subprocess.run(["/bin/sh", "-c", w], capture_output=True, timeout=30)
        body, _ = heredoc_body(w, SC.get_command_eof(cmd))
        assert out.returncode == 0, out.stderr
        # the here-document body gets a final newline appended by the shell
        assert out.stdout.decode() == body + "\n", (cmd, out.stdout, body)
        n += 1
    return {"heredoc_reader_vs_sh": n}


def replay(cond, args, extra):
    it = iter(extra["choices"])
    nx = lambda n=None, label=None: next(it)[1]
    if cond == "c29_wrap_symbolic":
        cmd = args["cmd"]
        return _replay_wrap(cmd)
    if cond == "c29_wrap_lines":
        cmd = "\n".join(LINES[nx()] for _ in range(extra["slice"]))
        r = _replay_wrap(cmd)
        if r[0]:
            return r
        return _replay_wrap(SC.prepare_command(cmd))
    if cond == "c29_prepare":
        cmd = args["cmd"]
        try:
            ok = _prepare_ok(cmd)
        except Exception as e:
            return True, "prepare_command(%r) raised %r" % (cmd, e), None
        return (not ok), "prepare_command(%r) = %r" % (cmd, SC.prepare_command(cmd)), None
    if cond == "c29_postprocess":
        ok, detail = _post_ok(nx)
        return (not ok), detail, None
    ok, detail = _script_ok(nx, extra["slice"][0], extra["slice"][1])
    return (not ok), detail, None


def _replay_wrap(cmd):
    try:
        ok = _wrap_ok(cmd)
    except Exception as e:
        return True, "wrapping %r raised %r" % (cmd, e), None
    if ok:
        return False, "%r ok" % (cmd,)
    # show the consequence with a real shell: interpreter /bin/cat prints the command file
    detail = "get_command_eof(%r) = %r" % (cmd, SC.get_command_eof(cmd))
    try:
        probe = "#!/bin/cat\n" + cmd
        w = SC.get_wrapped_command(probe)
        out = subprocess.run(["/bin/sh", "-c", w], capture_output=True, timeout=30)
        detail += "; through /bin/sh the command file contains %r instead of %r" % (out.stdout.decode(errors="replace"), probe + "\n")
    except Exception as e:
        detail += " (%r)" % (e,)
    return True, detail, None
