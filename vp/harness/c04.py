"""C04 — Cached results with external values are replayed only while still valid.

Real code: the validity branch of Scheduler._get_cache (-> _is_valid_value -> TypeRegistry.is_valid_nested -> File /
ContentFile / IFile / Dir / FileSet / Handle .is_valid, TaskExpression.is_valid) with the backend's check_cache replaced by
a stub that returns a cached result of solver-chosen shape; and whole re-executions through the real scheduler and SQLite
backend after a solver-chosen change of the file system.
"""
import importlib
import os
import shutil
import tempfile

from redun import task
from vp.core import SL, Condition, choose, excluded, guard, native
from vp.harness import c30 as FS

F = importlib.import_module("redun.file")
RS = importlib.import_module("redun.scheduler")
from redun.task import CacheResult  # noqa: E402

PROPERTY = "C04"
FUNCTIONS = ["redun.scheduler.Scheduler._get_cache", "Scheduler._is_valid_value", "redun.value.TypeRegistry.is_valid_nested",
             "redun.file.File/ContentFile/IFile/Dir/FileSet.is_valid", "redun.expression.TaskExpression.is_valid",
             "redun.scheduler.Scheduler._exec_job_main_thread (re-execution)", "redun.backends.db.RedunBackendDb.check_cache",
             "redun.scheduler.Scheduler._perform_rollbacks", "redun.handle.Handle.is_valid", "RedunBackendDb.rollback_handle"]
ASSUMPTIONS = FS.ASSUMPTIONS[:1] + [
    "cached result = one external value of a solver-chosen class in a solver-chosen position (bare, in a list, in a dict, nested, "
    "positional or keyword argument of a returned task expression), after one solver-chosen file-system change",
    "Handles: a task that receives a Handle (directly, by keyword, in a list, in a dict, nested) is run under a solver-chosen "
    "sequence of code versions; it must execute exactly when the previous execution on that incoming handle was by another "
    "version (whose execution rolled back this version's recorded state); arbitrary lineage histories are C25's subject; "
    "remote file systems are outside",
    "re-execution: a task that writes a file and returns a value of the chosen class, run twice with a file-system change in between",
]

NS = "vp_c04"
CLASSES = ["File", "ContentFile", "IFile", "Dir", "ContentDir", "FileSet"]
CHANGES = ["none", "rewrite_longer", "delete", "touch", "rewrite_same_size_same_mtime", "delete_and_recreate_same_content",
           "parent_dir_replaced_by_file"]
SHAPES = ["bare", "in_list", "in_dict", "nested", "expr_arg", "expr_kwarg", "second_of_two"]


@task(name="consume", namespace=NS, version="1")
def consume(label, data=None, extra=None):
    return label


def _paths(root):
    return os.path.join(root, "d", "out.txt"), os.path.join(root, "d")


def _value(cls, root):
    f, d = _paths(root)
    if cls in ("Dir", "ContentDir"):
        return getattr(F, cls)(d)
    if cls == "FileSet":
        return F.FileSet(os.path.join(d, "*.txt"))
    return getattr(F, cls)(f)


def _observe(cls, root):
    f, d = _paths(root)
    if cls == "IFile":
        return "immutable"
    if cls == "File":
        return FS._stat(f)
    if cls == "ContentFile":
        return FS._content(f)
    files = []
    if os.path.isdir(d):
        for dp, _, fns in os.walk(d):
            for fn in fns:
                p = os.path.join(dp, fn)
                if cls == "FileSet" and not (dp == d and fn.endswith(".txt")):
                    continue
                files.append((p, FS._content(p) if (cls == "ContentDir" and not FS.contentdir_by_stat()) else FS._stat(p)))
    return sorted(files)


def _change(kind, root):
    f, d = _paths(root)
    if kind == "rewrite_longer":
        F.File(f).write("a much longer content than before")
    elif kind == "delete":
        os.remove(f)
    elif kind == "touch":
        st = os.stat(f)
        os.utime(f, (st.st_atime + 10, st.st_mtime + 10))
    elif kind == "rewrite_same_size_same_mtime":
        st = os.stat(f)
        old = FS._content(f)
        with open(f, "wb") as out:
            out.write(bytes((c + 1) % 256 for c in old))
        os.utime(f, (st.st_atime, st.st_mtime))
    elif kind == "delete_and_recreate_same_content":
        old = FS._content(f)
        os.remove(f)
        with open(f, "wb") as out:
            out.write(old)
    elif kind == "parent_dir_replaced_by_file":
        shutil.rmtree(d)
        with open(d, "w") as out:
            out.write("a plain file where the directory was")


def _wrap(shape, v, other):
    if shape == "bare":
        return v
    if shape == "in_list":
        return [1, v]
    if shape == "in_dict":
        return {"out": v}
    if shape == "nested":
        return {"a": [(v,), "x"]}
    if shape == "expr_arg":
        return consume("lazy", v)
    if shape == "expr_kwarg":
        return consume("lazy", extra=v)
    return [other, v]


_KS = {}


def _sched():
    if "s" not in _KS:
        import logging
        logging.disable(logging.CRITICAL)
        s = RS.Scheduler()
        s.load()
        _KS["s"] = s
    RS.set_current_scheduler(_KS["s"])
    return _KS["s"]


def cache_case(cls, change, shape):
    root = tempfile.mkdtemp(prefix="vp_c04_")
    try:
        f, d = _paths(root)
        os.makedirs(d)
        F.File(f).write("first content")
        v = _value(cls, root)
        v.hash  # recorded
        other = F.IFile(os.path.join(root, "never-changes"))
        other.hash
        result = _wrap(shape, v, other)
        obs0 = _observe(cls, root)
        _change(change, root)
        want_valid = True if obs0 == "immutable" else (_observe(cls, root) == obs0)
        s = _sched()
        saved = s.backend.check_cache
        s.backend.check_cache = lambda *a, **k: (result, None, CacheResult.SINGLE)
        try:
            job = RS.Job(consume, consume("k"), execution=RS.Execution("kernel"))
            job.eval_hash, job.args_hash = "e", "a"
            try:
                got, cached, _ = s._get_cache(job)
            except Exception as e:
                return False, "%s in position %s after '%s': _get_cache raised %s: %s" % (cls, shape, change, type(e).__name__, e)
        finally:
            s.backend.check_cache = saved
        if cached != want_valid:
            return False, "%s in position %s after '%s': the cached result is %s although the value is %s" % (
                cls, shape, change, "replayed" if cached else "treated as a miss", "still valid" if want_valid else "no longer valid")
        return True, "ok"
    finally:
        shutil.rmtree(root, ignore_errors=True)


def c04_get_cache(k: int) -> bool:
    """
    post: _
    """
    def body():
        cls = CLASSES[SL()]
        change = CHANGES[choose(len(CHANGES), "change")]
        shape = SHAPES[choose(len(SHAPES), "shape")]
        return native(lambda: cache_case(cls, change, shape)[0])
    return guard(body, k=k)


# ---------------------------------------------------------------------------------------------
_CALLS = {"n": 0}
_ROOT = {"dir": None}


@task(name="produce", namespace=NS, version="1")
def produce(root, cls, salt):
    _CALLS["n"] += 1
    f, d = _paths(root)
    if not os.path.isdir(d):
        if os.path.exists(d):
            os.remove(d)
        os.makedirs(d)
    F.File(f).write("generated content")
    return _value(cls, root)


@task(name="downstream", namespace=NS, version="1")
def downstream(value):
    return ("seen", value.hash)


@task(name="pipeline", namespace=NS, version="1")
def pipeline(root, cls, salt):
    return downstream(produce(root, cls, salt))


_SALT = [0]


def rerun_case(cls, change, through):
    """Run, change the file system, run again: re-executed iff the recorded output became invalid, never raising."""
    root = tempfile.mkdtemp(prefix="vp_c04r_")
    _SALT[0] += 1
    salt = "r%d_%d" % (os.getpid(), _SALT[0])
    try:
        s = _sched()
        expr = (lambda: produce(root, cls, salt)) if through == "direct" else (lambda: pipeline(root, cls, salt))
        before = _CALLS["n"]
        s.run(expr())
        if _CALLS["n"] != before + 1:
            return False, "first run did not execute the task"
        obs0 = _observe(cls, root)
        _change(change, root)
        want_valid = True if obs0 == "immutable" else (_observe(cls, root) == obs0)
        before = _CALLS["n"]
        try:
            out = s.run(expr())
        except Exception as e:
            return False, "%s output, '%s', then run again (%s): raised %s: %s" % (cls, change, through, type(e).__name__, e)
        ran = _CALLS["n"] - before
        if ran != (0 if want_valid else 1):
            return False, "%s output, '%s', then run again (%s): the task was %s although its recorded output is %s" % (
                cls, change, through, "re-executed" if ran else "not re-executed", "still valid" if want_valid else "no longer valid")
        if ran:
            fresh = _value(cls, root).hash
            got = out.hash if through == "direct" else out[1]
            if got != fresh:
                return False, "%s output after '%s': the new result does not reflect the current file system" % (cls, change)
        return True, "ok"
    finally:
        shutil.rmtree(root, ignore_errors=True)


def c04_rerun(k: int) -> bool:
    """
    post: _
    """
    def body():
        cls = CLASSES[SL()]
        change = CHANGES[choose(len(CHANGES), "change")]
        through = ["direct", "pipeline"][choose(2, "through")]
        return native(lambda: rerun_case(cls, change, through)[0])
    return guard(body, k=k)


# ---------------------------------------------------------------------------------------------
# Handles: a task that advances a Handle is edited and reverted; the recorded result of a version is replayed only while the
# handle state it returned has not been rolled back by an execution of another version on the same incoming handle.
from redun import Handle  # noqa: E402

HPLACES = ["direct", "kwarg", "in_list", "in_dict", "nested"]
_HCALLS = []
_HT = {}


class C04Conn(Handle):
    def __init__(self, name, uri="db://x"):
        self.uri = uri


def _find_handle(x):
    if isinstance(x, Handle):
        return x
    if isinstance(x, dict):
        x = list(x.values())
    if isinstance(x, (list, tuple)):
        for y in x:
            h = _find_handle(y)
            if h is not None:
                return h
    return None


def _define_update(version):
    def update(*args, **kwargs):
        _HCALLS.append(version)
        return _find_handle([list(args), kwargs])
    return task(name="update", namespace=NS, version=version)(update)


def _hmain(place, name):
    conn = C04Conn(name)
    upd = _HT["update"]
    if place == "direct":
        return upd(conn)
    if place == "kwarg":
        return upd(conn=conn)
    if place == "in_list":
        return upd([1, conn])
    if place == "in_dict":
        return upd({"main": conn})
    return upd({"a": [(conn,)]})


hmain = task(name="hmain", namespace=NS, version="1", cache=False)(_hmain)


def handle_case(place, versions, nocache=None):
    """versions: e.g. ['v1', 'v2', 'v1'] - the code version of the handle-advancing task in successive executions;
    nocache: per execution, whether it runs with run(cache=False) (the task then always executes)."""
    nocache = list(nocache or [False] * len(versions))
    _SALT[0] += 1
    name = "conn_%d_%d" % (os.getpid(), _SALT[0])
    s = _sched()
    last = None
    trace = []
    for v, nc in zip(versions, nocache):
        _HT["update"] = _define_update(v)
        trace.append(v + ("(cache=False)" if nc else ""))
        del _HCALLS[:]
        try:
            out = s.run(hmain(place, name), **({"cache": False} if nc else {}))
        except Exception as e:
            return False, "handle passed %s, versions %r: raised %s: %s" % (place, trace, type(e).__name__, e)
        want = [] if (v == last and not nc) else [v]
        if _HCALLS != want:
            return False, ("handle passed %s, task versions run in turn %r: the last run %s, but the handle state recorded for %s is %s "
                           "(the previous execution on that incoming handle was by version %s)") % (
                place, trace, "executed the task" if _HCALLS else "replayed the recorded result", v,
                "still valid" if v == last else "rolled back", last)
        if not s.backend.is_valid_handle(out):
            return False, "handle passed %s, versions %r: the returned handle state is not valid" % (place, trace)
        last = v
    return True, "ok"


def c04_handle(k: int) -> bool:
    """
    post: _
    """
    def body():
        n = SL()
        place = HPLACES[choose(len(HPLACES), "place")]
        versions = ["v1"] + [["v1", "v2"][choose(2, "version")] for _ in range(n - 1)]
        return native(lambda: handle_case(place, versions)[0])
    return guard(body, k=k)


CONDITIONS = [
    Condition(c04_handle, slices=[3], thorough_slices=[3, 4, 5], timeout=250, thorough_timeout=900,
              bounds="slice = number of successive executions; the position in which the Handle reaches the task (%r) and the code "
                     "version (v1/v2) of the task in every execution after the first are solver-chosen" % (HPLACES,)),
    Condition(c04_get_cache, slices=list(range(len(CLASSES))), timeout=200,
              bounds="slice = class of the external value in %r; file-system change in %r; position in the cached result in %r" % (
                  CLASSES, CHANGES, SHAPES)),
    Condition(c04_rerun, slices=list(range(len(CLASSES))), timeout=250,
              bounds="slice = class of the task's output; change between the two executions in %r; task run directly or with a "
                     "downstream consumer" % (CHANGES,)),
]


def replay(cond, args, extra):
    ch = [c[1] for c in extra["choices"]]
    if cond == "c04_handle":
        ok, detail = handle_case(HPLACES[ch[0]], ["v1"] + [["v1", "v2"][c] for c in ch[1:]])
        return (not ok), detail, None
    cls = CLASSES[extra["slice"]]
    if cond == "c04_get_cache":
        ok, detail = cache_case(cls, CHANGES[ch[0]], SHAPES[ch[1]])
    else:
        ok, detail = rerun_case(cls, CHANGES[ch[0]], ["direct", "pipeline"][ch[1]])
    fid = "contentfile-missing-path-raises" if (not ok and "raised" in detail and "Content" in cls) else None
    if not ok and cls == "ContentDir" and "raised" not in detail:
        FS.FLAGS["contentdir_by_stat"] = True
        ok2 = (cache_case(cls, CHANGES[ch[0]], SHAPES[ch[1]]) if cond == "c04_get_cache"
               else rerun_case(cls, CHANGES[ch[0]], ["direct", "pipeline"][ch[1]]))[0]
        FS.FLAGS["contentdir_by_stat"] = False
        if ok2:
            fid = "contentdir-hashed-by-stat"
    return (not ok), detail, fid
