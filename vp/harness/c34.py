"""C34 — Tag values survive display and re-parsing.

Real code executed symbolically: redun.tags.format_tag_value / parse_tag_value / str2literal
(with CPython's ``re``/``json``/``int``/``float`` seen through CrossHair's models).
"""
from typing import Any

import redun.tags as T
from vp.core import SL, Condition, choose, guard

PROPERTY = "C34"
FUNCTIONS = ["redun.tags.format_tag_value", "redun.tags.parse_tag_value", "redun.tags.str2literal"]
ASSUMPTIONS = [
    "CrossHair 0.0.110 models of re / json / int(str) / float(str) agree with CPython (every counterexample is "
    "replayed on CPython; every confirmed slice has one solver-chosen input re-run on CPython)",
    "strings longer than the stated bound, floats other than the listed decimal forms, NaN/Infinity and nesting "
    "deeper than one level are outside the claim",
]

# The characters that steer format_tag_value / parse_tag_value: JSON openers, digits, sign, dot, exponent,
# underscore (int('1_0')), literal letters, space/comma (quoting rule), newline (regex '.'), backslash/quote
# (JSON escaping), and one non-ASCII character.
_ALPHA = '[{"0-+._e tn,\n\\éa'


def _roundtrip(v: Any) -> bool:
    shown = T.format_tag_value(v)
    back = T.parse_tag_value(shown)
    return type(back) is type(v) and back == v


def _in_alphabet(s: str, name: str) -> bool:
    if name == "any":
        return True
    if name == "ascii":
        return all(ord(c) < 128 for c in s)
    return all(c in _ALPHA for c in s)


def c34_str(s: str) -> bool:
    """
    pre: len(s) == SL()[0] and s.startswith(SL()[1]) and _in_alphabet(s, SL()[2])
    post: _
    """
    return guard(lambda: _roundtrip(s), s=s)


def c34_int(x: int) -> bool:
    """
    pre: SL()[0] <= x <= SL()[1]
    post: _
    """
    return guard(lambda: _roundtrip(x), x=x)


def c34_literal(k: int) -> bool:
    """
    post: _
    """
    return guard(lambda: _roundtrip([True, False, None][choose(3)]), k=k)


def c34_list(s: str, x: int, b: bool) -> bool:
    """
    pre: len(s) <= SL()[0] and _in_alphabet(s, "steer") and -SL()[1] < x < SL()[1]
    post: _
    """
    return guard(lambda: _roundtrip([s, x, b, None]), s=s, x=x, b=b)


def c34_dict(s: str, x: int) -> bool:
    """
    pre: len(s) <= SL()[0] and _in_alphabet(s, "steer") and -SL()[1] < x < SL()[1]
    post: _
    """
    return guard(lambda: _roundtrip({"b": s, "a": [x]}), s=s, x=x)


_FN = FUNCTIONS
_INT_Q = [(-300, 300), (2 ** 53 - 4, 2 ** 53 + 12), (2 ** 63 - 6, 2 ** 63 + 6), (-(2 ** 63) - 6, -(2 ** 63) + 6),
          (10 ** 22 - 3, 10 ** 22 + 9)]
_INT_T = _INT_Q + [(-3000, -300), (300, 3000), (10 ** 6 - 50, 10 ** 6 + 50), (2 ** 64 - 6, 2 ** 64 + 6),
                   (-(2 ** 53) - 12, -(2 ** 53) + 4), (10 ** 40 - 3, 10 ** 40 + 9), (2 ** 31 - 6, 2 ** 31 + 6)]
_Q = [(0, "", "any"), (1, "", "ascii"), (2, "", "steer")] + [(3, ch, "steer") for ch in '0-tn.']
_T = ([(0, "", "any"), (1, "", "any"), (2, "", "steer")] + [(2, ch, "ascii") for ch in _ALPHA]
      + [(3, ch, "steer") for ch in _ALPHA] + [(4, a + b, "steer") for a in '[{"0-tn' for b in '"0.e\\ ]'])
CONDITIONS = [
    Condition(c34_str, slices=_Q, thorough_slices=_T, timeout=150, thorough_timeout=900,
              bounds="slice = (length, fixed prefix, alphabet): every str of that length and prefix over the alphabet; "
                     "'steer' = the 18 characters that steer the code " + repr(_ALPHA) + ", 'ascii' = 0..127, 'any' = all "
                     "code points; quick: len 0 any, len 1 ascii, len 2 steer, len 3 steer with first character in '0-tn.'; "
                     "thorough: len 1 any, len 2 ascii with first char in steer, len 3 steer, len 4 steer with 49 prefixes",
              functions=_FN),
    Condition(c34_int, slices=_INT_Q, thorough_slices=_INT_T, timeout=100, thorough_timeout=600,
              bounds="ints in the window slice = [lo, hi]: around 0, and around the magnitudes where an int stops being exactly "
                     "representable as a float (2**53), 64-bit limits, 10**22 and a 40-digit number", functions=_FN),
    Condition(c34_literal, timeout=30, bounds="True / False / None", functions=_FN),
    Condition(c34_list, slices=[(1, 2)], thorough_slices=[(1, 10), (2, 2)], timeout=150, thorough_timeout=900,
              bounds="[s, x, b, None], slice = (max len(s) over the steering alphabet, bound on |x|)", functions=_FN),
    Condition(c34_dict, slices=[(1, 2)], thorough_slices=[(1, 10), (2, 2)], timeout=150, thorough_timeout=900,
              bounds="{'b': s, 'a': [x]}, slice = (max len(s) over the steering alphabet, bound on |x|)", functions=_FN),
]


def replay(cond, args, extra):
    """Re-run the recorded input on the real code under CPython."""
    if cond == "c34_literal":
        v = [True, False, None][extra["choices"][0][1]]
    elif cond == "c34_list":
        v = [args["s"], args["x"], args["b"], None]
    elif cond == "c34_dict":
        v = {"b": args["s"], "a": [args["x"]]}
    elif cond == "c34_int":
        v = args["x"]
    else:
        v = args["s"]
    try:
        shown = T.format_tag_value(v)
    except Exception as e:
        return True, "format_tag_value(%r) raised %s: %s" % (v, type(e).__name__, e), _classify(v, "format")
    try:
        back = T.parse_tag_value(shown)
    except Exception as e:
        return True, "parse_tag_value(%r) raised %s (value %r)" % (shown, type(e).__name__, v), _classify(v, "parse")
    if type(back) is not type(v) or back != v:
        return True, "%r displayed as %r re-parses as %r" % (v, shown, back), _classify(v, "mismatch")
    return False, "%r -> %r -> %r" % (v, shown, back)


def _classify(v, how):
    if how == "format" and isinstance(v, str) and v[:1] in ('[', '{', '"'):
        return "format-raises-on-json-opener-string"
    return None
