"""Shared S4 kernels: the real RedunBackendDb query methods run unbound on a stand-in backend whose session is the
FakeSession (vp/stubs/fakedb.py), so that row fields can be symbolic and the pre-state can be *arbitrary* (not only what a
bounded history reaches).  Used by C03 (ultimate-reduction lookup), C05 (context filter) and C25 (rollback step).

Every counterexample is replayed by writing the same rows into the real in-memory SQLite backend through the ORM and
calling the real bound method - no stub.
"""
import importlib

from vp.core import assume, choose, excluded, fresh
from vp.stubs.fakedb import NS, StandInBackend, run_selective

db = importlib.import_module("redun.backends.db")
from redun.backends.base import CacheCheckValid, CacheResult, CacheScope  # noqa: E402

CTX = db.CONTEXT_KEY


def _unwrap(f):
    while hasattr(f, "__wrapped__"):
        f = f.__wrapped__
    return f


class KernBackend(StandInBackend):
    check_cache = _unwrap(db.RedunBackendDb.check_cache)
    _get_call_node = _unwrap(db.RedunBackendDb._get_call_node)
    rollback_handle = _unwrap(db.RedunBackendDb.rollback_handle)
    is_valid_handle = _unwrap(db.RedunBackendDb.is_valid_handle)

    def get_call_cache(self, call_hash):
        return ("RESULT", call_hash), True

    def get_eval_cache(self, eval_hash):
        return None, False


def _sess_extras(b):
    b.session.expire_all = lambda: None
    return b


# ------------------------------------------------------------------------------------------------------------------
# C05: context filter of check_cache (CSE and ULTIMATE branches)

def ctx_case(pick_int, pick, pick_bool):
    """Builds (tables-as-plain-data, request).  All row fields come from the pick functions, so that the same builder serves
    the symbolic run and the concrete replay."""
    n_nodes = 1 + pick(2, "n_nodes")
    nodes = []
    for i in range(n_nodes):
        nodes.append(dict(call_hash="c%d" % i, task_hash=pick_int("node_task"), args_hash=pick_int("node_args"),
                          timestamp=pick_int("node_ts"), value_hash="v%d" % i))
    n_jobs = pick(3, "n_jobs")
    jobs = []
    for i in range(n_jobs):
        jobs.append(dict(id="j%d" % i, call_hash="c%d" % pick(n_nodes, "job_node"), task_hash=pick_int("job_task"),
                         execution_id=pick_int("job_exec"), start_time=pick_int("job_start")))
    n_tags = pick(3, "n_tags")
    tags = []
    for i in range(n_tags):
        tags.append(dict(tag_hash="t%d" % i, entity_id="c%d" % pick(n_nodes, "tag_node"),
                         key=CTX if pick(2, "tag_is_context") == 0 else "other", value=pick_int("tag_value"), is_current=True))
    use_ctx = pick(2, "request_has_context") == 1
    req_ctx = pick_int("request_context") if use_ctx else None
    scope = [CacheScope.CSE, CacheScope.BACKEND][pick(2, "scope")]
    valid = [CacheCheckValid.FULL, CacheCheckValid.SHALLOW][pick(2, "check_valid")]
    return dict(nodes=nodes, jobs=jobs, tags=tags, req_ctx=req_ctx, scope=scope, valid=valid)


def ctx_check(case, backend_call):
    """backend_call(case) -> (result, call_hash, kind).  Returns (ok, detail, listed_class)."""
    if case["req_ctx"] is not None and not case["req_ctx"]:
        return True, "falsy context hash is never produced", False
    # every call node carries at most one context tag (record_call_node_context writes one per call node)
    result, call_hash, kind = backend_call(case)
    if kind not in (CacheResult.CSE, CacheResult.ULTIMATE):
        return True, "miss", False
    node = [n for n in case["nodes"] if n["call_hash"] == call_hash]
    if len(node) != 1:
        return False, "hit on unknown call node %r" % (call_hash,), False
    node = node[0]
    if not (node["task_hash"] == 0 and node["args_hash"] == 0) and kind == CacheResult.ULTIMATE:
        return False, "ULTIMATE hit on a call node of another task / arguments: %r" % (node,), False
    if kind == CacheResult.CSE:
        if not (node["args_hash"] == 0 and any(j["call_hash"] == call_hash and j["task_hash"] == 0 and j["execution_id"] == 0
                                                for j in case["jobs"])):
            return False, "CSE hit on a call node without a job of this task in this execution: %r" % (node,), False
    ctx_tags = [t["value"] for t in case["tags"] if t["entity_id"] == call_hash and t["key"] == CTX]
    if case["req_ctx"] is None:
        if ctx_tags:
            return False, ("request without context got a %s hit on call node %s that was recorded under context %r" % (
                kind.name, call_hash, ctx_tags)), True
        return True, "ok", False
    if not any(v == case["req_ctx"] for v in ctx_tags):
        return False, "request under context %r got a %s hit on call node %s recorded under context(s) %r" % (
            case["req_ctx"], kind.name, call_hash, ctx_tags), False
    return True, "ok", False


def ctx_run_fake(case):
    tables = {
        "call_node": [NS(**n) for n in case["nodes"]],
        "job": [NS(**j) for j in case["jobs"]],
        "tag": [NS(**t) for t in case["tags"]],
        "call_subtree_task": [],
    }
    b = _sess_extras(KernBackend(tables))
    return run_selective(lambda: b.check_cache(0, 0, "e", 0, set(), case["scope"], case["valid"], case["req_ctx"], None))


def _tok(x):
    return "%s" % (x,)


def ctx_run_real(case):
    """The same rows in the real in-memory SQLite backend, the real bound check_cache."""
    RS = importlib.import_module("redun.scheduler")
    s = RS.Scheduler()
    s.load()
    b = s.backend
    sess = b.session
    import datetime
    t0 = datetime.datetime(2020, 1, 1, tzinfo=datetime.timezone.utc)
    for th in sorted(set([_tok(n["task_hash"]) for n in case["nodes"]] + [_tok(j["task_hash"]) for j in case["jobs"]] + ["0"])):
        sess.add(db.Task(hash=th, name="t" + th, namespace="", source=""))
    for n in case["nodes"]:
        b.record_value(("RESULT", n["call_hash"]))
        from redun.value import get_type_registry
        vh = get_type_registry().get_hash(("RESULT", n["call_hash"]))
        sess.add(db.CallNode(call_hash=n["call_hash"], task_name="t", task_hash=_tok(n["task_hash"]), args_hash=_tok(n["args_hash"]),
                             value_hash=vh, timestamp=t0 + datetime.timedelta(seconds=int(n["timestamp"]) % 100000)))
    execs = sorted(set([_tok(j["execution_id"]) for j in case["jobs"]] + ["0"]))
    for j in case["jobs"]:
        sess.add(db.Job(id=j["id"], call_hash=j["call_hash"], task_hash=_tok(j["task_hash"]), execution_id=_tok(j["execution_id"]),
                        start_time=t0 + datetime.timedelta(seconds=int(j["start_time"]) % 100000), cached=False))
    for e in execs:
        sess.add(db.Execution(id=e, job_id='root-' + e, args='[]'))
    for t in case["tags"]:
        sess.add(db.Tag(tag_hash=t["tag_hash"], entity_type=db.TagEntity.CallNode, entity_id=t["entity_id"], key=t["key"],
                        value=_tok(t["value"]), is_current=True))
    sess.commit()
    ctx = None if case["req_ctx"] is None else _tok(case["req_ctx"])
    return b.check_cache("0", "0", "e", "0", set(), case["scope"], case["valid"], ctx, None)


# ------------------------------------------------------------------------------------------------------------------
# C03: ultimate-reduction lookup _get_call_node

TASKS = [10, 11]


def sub_case(pick_int, pick):
    n_nodes = 1 + pick(3, "n_nodes")
    nodes = []
    for i in range(n_nodes):
        nodes.append(dict(call_hash="c%d" % i, task_hash=pick_int("node_task"), args_hash=pick_int("node_args"),
                          timestamp=pick_int("node_ts"), value_hash="v%d" % i))
    n_rows = pick(5, "n_subtree_rows")
    rows = []
    for i in range(n_rows):
        rows.append(dict(call_hash="c%d" % pick(n_nodes, "row_node"), task_hash=TASKS[pick(len(TASKS), "row_task")]))
    registry = [t for t in TASKS if pick(2, "in_registry_%d" % t) == 1]
    return dict(nodes=nodes, rows=rows, registry=registry)


def sub_expected(case):
    """The newest call node of the requested task and arguments whose recorded subtree tasks are all in the registry."""
    best = None
    for n in case["nodes"]:
        if n["task_hash"] == 0 and n["args_hash"] == 0:
            tasks = set(r["task_hash"] for r in case["rows"] if r["call_hash"] == n["call_hash"])
            if tasks <= set(case["registry"]):
                if best is None or n["timestamp"] > best["timestamp"]:
                    best = n
    return best["call_hash"] if best else None


def sub_run_fake(case):
    tables = {
        "call_node": [NS(**n) for n in case["nodes"]],
        "call_subtree_task": [NS(**r) for r in case["rows"]],
        "tag": [],
    }
    b = _sess_extras(KernBackend(tables))
    node = run_selective(lambda: b._get_call_node(0, 0, set(case["registry"]), None))
    return node.call_hash if node is not None else None


def sub_run_real(case):
    RS = importlib.import_module("redun.scheduler")
    s = RS.Scheduler()
    s.load()
    b = s.backend
    sess = b.session
    import datetime
    t0 = datetime.datetime(2020, 1, 1, tzinfo=datetime.timezone.utc)
    for th in sorted(set([_tok(n["task_hash"]) for n in case["nodes"]] + [_tok(t) for t in TASKS] + ["0"])):
        sess.add(db.Task(hash=th, name="t" + th, namespace="", source=""))
    from redun.value import get_type_registry
    for n in case["nodes"]:
        b.record_value(("RESULT", n["call_hash"]))
        vh = get_type_registry().get_hash(("RESULT", n["call_hash"]))
        sess.add(db.CallNode(call_hash=n["call_hash"], task_name="t", task_hash=_tok(n["task_hash"]), args_hash=_tok(n["args_hash"]),
                             value_hash=vh, timestamp=t0 + datetime.timedelta(seconds=int(n["timestamp"]) % 100000)))
    seen = set()
    for r in case["rows"]:
        key = (r["call_hash"], r["task_hash"])
        if key in seen:
            continue
        seen.add(key)
        sess.add(db.CallSubtreeTask(call_hash=r["call_hash"], task_hash=_tok(r["task_hash"])))
    sess.commit()
    node = b._get_call_node("0", "0", set(_tok(t) for t in case["registry"]), None)
    return node.call_hash if node is not None else None


# ------------------------------------------------------------------------------------------------------------------
# C25: one rollback step from an arbitrary handle graph

N_STATES = 4
PAIRS = [(i, j) for i in range(N_STATES) for j in range(i + 1, N_STATES)]


class _HInfo:
    def __init__(self, fullname, hash):
        self.fullname = fullname
        self.hash = hash


class _H:
    def __init__(self, fullname, hash):
        self.__handle__ = _HInfo(fullname, hash)


def rb_case(pick, pick_bool, target):
    n = N_STATES
    same = [True] + [pick(2, "same_name_%d" % i) == 0 for i in range(1, n)]
    same[target] = True
    valid = [pick_bool("valid_%d" % i) for i in range(n)]
    edges = []
    for (i, j) in PAIRS:
        if same[i] and same[j] and pick(2, "edge_%d_%d" % (i, j)) == 1:
            edges.append((i, j))
    return dict(same=same, valid=valid, edges=edges, target=target)


def rb_invariant(case):
    """Every state derived from an invalid state is invalid (what advance / rollback histories maintain)."""
    return all(case["valid"][i] or not case["valid"][j] for (i, j) in case["edges"])


def rb_expected(case):
    desc, stack = set(), [case["target"]]
    while stack:
        x = stack.pop()
        for (i, j) in case["edges"]:
            if i == x and j not in desc:
                desc.add(j)
                stack.append(j)
    return [bool(v) and (k not in desc) for k, v in enumerate(case["valid"])]


def rb_run_fake(case):
    tables = {
        "handle": [NS(hash="h%d" % i, fullname="conn" if case["same"][i] else "other", is_valid=case["valid"][i], key="", value_hash=None)
                   for i in range(N_STATES)],
        "handle_edge": [NS(parent_id="h%d" % i, child_id="h%d" % j) for (i, j) in case["edges"]],
    }
    b = _sess_extras(KernBackend(tables))
    run_selective(lambda: b.rollback_handle(_H("conn", "h%d" % case["target"])))
    out = [run_selective(lambda i=i: b.is_valid_handle(_H("conn" if case["same"][i] else "other", "h%d" % i))) for i in range(N_STATES)]
    return [bool(x) for x in out]


def rb_run_real(case):
    RS = importlib.import_module("redun.scheduler")
    s = RS.Scheduler()
    s.load()
    b = s.backend
    sess = b.session
    from redun.value import get_type_registry
    for i in range(N_STATES):
        b.record_value(("HANDLE", i))
        sess.add(db.Handle(hash="h%d" % i, fullname="conn" if case["same"][i] else "other", is_valid=bool(case["valid"][i]), key="",
                           value_hash=get_type_registry().get_hash(("HANDLE", i))))
    for (i, j) in case["edges"]:
        sess.add(db.HandleEdge(parent_id="h%d" % i, child_id="h%d" % j))
    sess.commit()
    b.rollback_handle(_H("conn", "h%d" % case["target"]))
    return [bool(b.is_valid_handle(_H("conn" if case["same"][i] else "other", "h%d" % i))) for i in range(N_STATES)]


def fixed_pick(pick, fixed):
    """A pick function that takes the values of the listed labels from the partition slice instead of the solver."""
    def p(n, label):
        if label in fixed:
            return min(fixed[label], n - 1)
        return pick(n, label)
    return p


# helpers shared by the three harness modules -----------------------------------------------------------------------

def sym_pickers():
    return (lambda label: fresh(int, label)), choose, (lambda label: fresh(bool, label))


def replay_pickers(choices):
    it = iter(choices)

    def nxt():
        return next(it)[1]
    return (lambda label: int(nxt())), (lambda n, label: min(int(nxt()), n - 1)), (lambda label: bool(nxt()))


def _random_pickers(rng):
    return (lambda label: rng.randrange(3)), (lambda n, label: rng.randrange(n)), (lambda label: rng.random() < 0.5)


def differential(which, seed, n=25):
    """S4 against the real in-memory SQLite backend on seeded rows; returns the number of agreeing cases."""
    import logging
    import random
    logging.disable(logging.CRITICAL)
    rng = random.Random(seed)
    agree = 0
    for _ in range(n):
        pi, pc, pb = _random_pickers(rng)
        if which == "ctx":
            case = ctx_case(pi, pc, pb)
            a, b = ctx_check(case, ctx_run_fake), ctx_check(case, ctx_run_real)
        elif which == "sub":
            case = sub_case(pi, pc)
            if len(set(n_["timestamp"] for n_ in case["nodes"])) != len(case["nodes"]):
                continue
            a, b = sub_run_fake(case), sub_run_real(case)
        else:
            case = rb_case(pc, pb, rng.randrange(3))
            a, b = rb_run_fake(case), rb_run_real(case)
        assert a == b, ("S4 and SQLite disagree", which, case, a, b)
        agree += 1
    return agree


def warm(which):
    """Concrete runs before the symbolic analysis, so that SQLAlchemy's lazily built caches do not change the decision
    sequence between paths."""
    import random
    rng = random.Random(7)
    for _ in range(12):
        pi, pc, pb = _random_pickers(rng)
        if which == "ctx":
            ctx_check(ctx_case(pi, pc, pb), ctx_run_fake)
        elif which == "sub":
            case = sub_case(pi, pc)
            sub_run_fake(case)
            sub_expected(case)
        else:
            case = rb_case(pc, pb, rng.randrange(3))
            rb_run_fake(case)
            rb_expected(case)
