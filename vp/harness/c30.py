"""C30 — File value hashes track the filesystem.

Real code: File / ContentFile / IFile / Dir / ContentDir / IDir / FileSet: hash, _calc_hash, update_hash, is_valid, open
(close hook), write, copy_to, touch; LocalFileSystem.get_hash / exists / copy (redun/file.py) on a real temporary
directory.  The sequence of file-system operations is a vector of solver choice variables; the oracle observes the file
system independently (os.stat / reading bytes).
"""
import importlib
import os
import shutil
import tempfile

from vp.core import SL, Condition, choose, excluded, guard, native

F = importlib.import_module("redun.file")

PROPERTY = "C30"
FUNCTIONS = ["redun.file.File.hash/_calc_hash/update_hash/is_valid/open/write/copy_to/touch", "redun.file.ContentFile._calc_hash",
             "redun.file.IFile", "redun.file.Dir/ContentDir/IDir._calc_hash", "redun.file.FileSet._calc_hash/is_valid",
             "redun.file.LocalFileSystem.get_hash/exists/copy/touch", "redun.hashing.hash_stream"]
ASSUMPTIONS = [
    "local POSIX file system in a fresh temporary directory; remote file systems are outside",
    "sequences of <= 3 (quick) / 4 (thorough) operations from OPS on two paths (a.txt, d/b.txt) and the directory d",
    "a stat-hashed value is expected valid exactly when (exists, size, mtime) of its path(s) are unchanged - a rewrite that keeps "
    "size and mtime is, as the property says, not detectable for them; content-hashed values exactly when the bytes are unchanged",
]

OPS = ["write_a_short", "write_a_long", "rewrite_a_same_size_same_mtime", "append_a", "remove_a", "touch_a", "copy_a_to_b", "write_b",
       "remove_b", "replace_dir_d_by_a_file", "recreate_a_same_content", "recreate_b_same_content", "update_a_in_place_r_plus"]
CLASSES = ["File:a", "ContentFile:a", "IFile:a", "File:b", "ContentFile:b", "Dir:d", "ContentDir:d", "IDir:d", "FileSet:*"]


FLAGS = {"contentdir_by_stat": False}


def contentdir_by_stat():
    """Listed finding: ContentDir hashes its members by (size, mtime) like Dir, not by their bytes."""
    return FLAGS["contentdir_by_stat"] or excluded("contentdir-hashed-by-stat")


def _mk(root, spec):
    cls, target = spec.split(":")
    path = {"a": os.path.join(root, "a.txt"), "b": os.path.join(root, "d", "b.txt"), "d": os.path.join(root, "d"),
            "*": os.path.join(root, "*.txt")}[target]
    return getattr(F, cls)(path)


def _stat(path):
    try:
        st = os.stat(path)
        if not os.path.isfile(path):
            return ("dir",)
        return (st.st_size, st.st_mtime)
    except OSError:
        return None


def _content(path):
    try:
        with open(path, "rb") as f:
            return f.read()
    except OSError:
        return None


def observe(root, spec):
    """What the value's hash is supposed to stand for, read from the OS directly."""
    cls, target = spec.split(":")
    a, b, d = os.path.join(root, "a.txt"), os.path.join(root, "d", "b.txt"), os.path.join(root, "d")
    if cls in ("IFile", "IDir"):
        return "immutable"
    if target in ("a", "b"):
        p = a if target == "a" else b
        return _content(p) if cls == "ContentFile" else _stat(p)
    if target == "d":
        files = []
        if os.path.isdir(d):
            for dp, _, fns in os.walk(d):
                for fn in fns:
                    p = os.path.join(dp, fn)
                    files.append((p, _content(p) if (cls == "ContentDir" and not contentdir_by_stat()) else _stat(p)))
        return sorted(files)
    return sorted((p, _stat(p)) for p in [a] if os.path.isfile(p))


def run_ops(ops):
    root = tempfile.mkdtemp(prefix="vp_c30_")
    try:
        return _run_ops(root, ops)
    finally:
        shutil.rmtree(root, ignore_errors=True)


def _run_ops(root, ops):
    a = F.File(os.path.join(root, "a.txt"))
    b = F.File(os.path.join(root, "d", "b.txt"))
    os.makedirs(os.path.join(root, "d"))
    a.write("init")
    b.write("binit")
    recorded = []
    for spec in CLASSES:
        v = _mk(root, spec)
        v.hash  # the recorded hash
        recorded.append((spec, v, observe(root, spec)))
    trace = []
    for op in ops:
        trace.append(op)
        writer = None
        try:
            if op == "write_a_short":
                a.write("aa")
                writer = ("File:a", a)
            elif op == "write_a_long":
                a.write("aaaaaaaa")
                writer = ("File:a", a)
            elif op == "rewrite_a_same_size_same_mtime":
                if os.path.isfile(a.path):
                    st = os.stat(a.path)
                    old = _content(a.path)
                    new = bytes((c + 1) % 256 for c in old)
                    w = F.File(a.path)
                    w.write(new, mode="wb")
                    w.touch((st.st_atime, st.st_mtime))
                    w.update_hash()
                    writer = ("File:a", w)
            elif op == "append_a":
                a.write("++", mode="a")
                writer = ("File:a", a)
            elif op == "remove_a":
                if os.path.exists(a.path):
                    a.remove()
            elif op == "touch_a":
                if os.path.isfile(a.path):
                    st = os.stat(a.path)
                    a.touch((st.st_atime + 10, st.st_mtime + 10))
            elif op == "copy_a_to_b":
                if os.path.isfile(a.path) and os.path.isdir(os.path.dirname(b.path)):
                    src = F.ContentFile(a.path)
                    dst = F.ContentFile(b.path)
                    src.copy_to(dst)
                    writer = ("ContentFile:b", dst)
            elif op == "write_b":
                if os.path.isdir(os.path.dirname(b.path)):
                    b.write("bbbbbbbbbbbb")
                    writer = ("File:b", b)
            elif op == "remove_b":
                if os.path.isfile(b.path):
                    b.remove()
            elif op == "replace_dir_d_by_a_file":
                d = os.path.join(root, "d")
                if os.path.isdir(d):
                    shutil.rmtree(d)
                    F.File(d).write("now a plain file")
            elif op == "recreate_b_same_content":
                if os.path.isfile(b.path):
                    old = _content(b.path)
                    b.remove()
                    b.write(old, mode="wb")
                    writer = ("File:b", b)
            elif op == "update_a_in_place_r_plus":
                if os.path.isfile(a.path):
                    with a.open("r+") as f:  # update mode: read the old text, then write more behind it
                        f.read()
                        f.write("-updated-in-place")
                    writer = ("File:a", a)
            elif op == "recreate_a_same_content":
                if os.path.exists(a.path):
                    a.remove()
                a.write("init")
                writer = ("File:a", a)
        except Exception as e:
            return False, "after %s: the operation itself raised %s: %s" % (trace, type(e).__name__, e)
        # (iii) the value through which the file was written / copied carries the hash of the current state
        if writer is not None:
            spec, w = writer
            fresh = _mk(root, spec).hash
            if w.hash != fresh:
                return False, "after %s: the %s used for the operation has hash %s, a fresh value %s" % (trace, spec, w.hash[:8], fresh[:8])
        for spec, v, obs0 in recorded:
            # (ii) hashing never raises, also for missing paths, and is deterministic
            try:
                h1, h2 = _mk(root, spec).hash, _mk(root, spec).hash
            except Exception as e:
                return False, "after %s: hashing a fresh %s raised %s: %s" % (trace, spec, type(e).__name__, e)
            if h1 != h2:
                return False, "after %s: two fresh %s values hash differently" % (trace, spec)
            # (i) valid exactly when the observed state is the recorded one
            try:
                got = v.is_valid()
            except Exception as e:
                return False, "after %s: is_valid() of the recorded %s raised %s: %s" % (trace, spec, type(e).__name__, e)
            now = observe(root, spec)
            want = True if obs0 == "immutable" else (now == obs0)
            if got != want:
                return False, "after %s: recorded %s is_valid() = %s, but its file-system state is %s (recorded %r, now %r)" % (
                    trace, spec, got, "unchanged" if want else "changed", obs0, now)
            if (v.hash == h1) != want and obs0 != "immutable":
                return False, "after %s: recorded hash of %s %s the fresh hash although the state is %s" % (
                    trace, spec, "equals" if v.hash == h1 else "differs from", "unchanged" if want else "changed")
    return True, "ok"


def c30_ops(k: int) -> bool:
    """
    post: _
    """
    def body():
        n, first = SL()
        ops = [OPS[f] for f in first] + [OPS[choose(len(OPS), "op")] for _ in range(n - len(first))]
        return native(lambda: run_ops(ops)[0])
    return guard(body, k=k)


_NO = len(OPS)
CONDITIONS = [
    Condition(c30_ops, slices=[(2, ())] + [(3, (a,)) for a in range(_NO)], thorough_slices=[(4, (a, b)) for a in range(_NO) for b in range(_NO)],
              timeout=250, thorough_timeout=2400,
              bounds="slice = (operations, fixed first operations); later operations chosen by the solver among %r; value classes "
                     "observed: %r" % (OPS, CLASSES)),
]


def replay(cond, args, extra):
    n, first = extra["slice"]
    ops = [OPS[f] for f in first] + [OPS[c[1]] for c in extra["choices"]][: n - len(first)]
    ok, detail = run_ops(ops)
    fid = None
    if not ok and "ContentFile" in detail and ("raised" in detail) and ("NotFound" in detail or "No such file" in detail):
        fid = "contentfile-missing-path-raises"
    if not ok and "ContentDir" in detail and "raised" in detail:
        fid = "contentfile-missing-path-raises"
    if not ok and "ContentDir" in detail and "raised" not in detail:
        FLAGS["contentdir_by_stat"] = True
        ok2 = run_ops(ops)[0]
        FLAGS["contentdir_by_stat"] = False
        if ok2:
            fid = "contentdir-hashed-by-stat"
    return (not ok), detail, fid
