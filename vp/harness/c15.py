"""C15 — Cache keys separate every distinct call and only those.

Real code executed symbolically: redun.task.hash_args_eval, redun.hashing.hash_eval / hash_arguments /
hash_positional_args / hash_kwargs, redun.scheduler.get_arg_defaults (+ the scheduler's
``{**default_kwargs, **kwargs}`` merge), Task.signature, TypeRegistry.get_hash -> Value.get_hash.
Argument values are tokens (stub S3): the solver decides which arguments of two calls coincide.
"""
import ast
import glob
import importlib
import inspect
import os
import random

import redun
from redun import task as task_decorator
from redun.scheduler import JobInfo, get_arg_defaults
from redun.value import get_type_registry
from vp.core import SL, Condition, choose, fresh_int, guard
from vp.stubs.common import Tok, install_struct_hash, selftest_struct_hash

T = importlib.import_module("redun.task")

PROPERTY = "C15"
FUNCTIONS = [
    "redun.task.hash_args_eval", "redun.hashing.hash_eval", "redun.hashing.hash_arguments",
    "redun.hashing.hash_positional_args", "redun.hashing.hash_kwargs", "redun.scheduler.get_arg_defaults",
    "redun.task.Task.signature", "redun.value.TypeRegistry.get_hash",
]
ASSUMPTIONS = [
    "S2 structural hash: SHA-512/160 collision-free and bencode injective (C14), so digest equality == pre-image equality",
    "S3 value tokens: an argument's value hash is an arbitrary integer token; distinct values <=> distinct tokens",
    "signature templates listed in TEMPLATES; at most 5 positional and 2 keyword arguments per call",
    "a call is considered only if Python itself accepts it (inspect.Signature.bind succeeds)",
]

redun_namespace = "vp_c15"

D1, D2, D3 = Tok(1001), Tok(1002), Tok(1003)  # concrete default values


def _f_ab(a, b): return 0
def _f_defaults(a, b=D1, c=D2): return 0
def _f_var(a, *rest): return 0
def _f_var_kwonly(a, *rest, k=D1): return 0
def _f_mixed(a, b=D1, *rest, k=D2, m=D3): return 0
def _f_kwargs(a, **kw): return 0
def _f_posonly(a, /, b, c=D1): return 0
def _f_kwonly(a, *, k, m=D1): return 0
def _f_info(a, info=JobInfo(), b=D1): return 0
def _f_cfg_first(c, a, b=D1): return 0


# (function, config_args)
TEMPLATES = [
    (_f_ab, []), (_f_ab, ["a"]),
    (_f_defaults, []), (_f_defaults, ["b"]), (_f_defaults, ["c"]),
    (_f_var, []), (_f_var, ["rest"]), (_f_var, ["a"]),
    (_f_var_kwonly, []), (_f_var_kwonly, ["k"]), (_f_var_kwonly, ["rest"]),
    (_f_mixed, []), (_f_mixed, ["k"]), (_f_mixed, ["b"]), (_f_mixed, ["m"]),
    (_f_kwargs, []), (_f_kwargs, ["a"]), (_f_kwargs, ["kw"]),
    (_f_posonly, []), (_f_posonly, ["b"]),
    (_f_kwonly, []), (_f_kwonly, ["k"]), (_f_kwonly, ["m"]),
    (_f_info, []), (_f_info, ["b"]),
    (_f_cfg_first, ["c"]),
]
_TASKS = {}


def _task(i):
    if i not in _TASKS:
        fn, cfg = TEMPLATES[i]
        _TASKS[i] = task_decorator(name="t%d" % i, namespace=redun_namespace, config_args=cfg)(fn)
    return _TASKS[i]


def install():
    install_struct_hash()


def warmup(cond):
    for i in range(len(TEMPLATES)):
        t = _task(i)
        t.signature
        t.hash


def self_test(seed):
    n = selftest_struct_hash(random.Random(seed), 300)
    tags = _leading_tags()
    return {"struct_hash_pairs": n, "hash_struct_sites": len(tags["sites"]), "distinct_tags": len(tags["tags"])}


# ---------------------------------------------------------------------------------------------
# Call forms


def _forms(fn, max_var=2):
    """All syntactic call forms of a signature: (n positional, tuple of keyword names)."""
    sig = inspect.signature(fn)
    params = list(sig.parameters.values())
    pos = [p for p in params if p.kind in (p.POSITIONAL_ONLY, p.POSITIONAL_OR_KEYWORD)]
    has_var = any(p.kind == p.VAR_POSITIONAL for p in params)
    has_kw = any(p.kind == p.VAR_KEYWORD for p in params)
    named = [p for p in params if p.kind in (p.POSITIONAL_OR_KEYWORD, p.KEYWORD_ONLY)]
    forms = []
    for npos in range(0, len(pos) + (max_var if has_var else 0) + 1):
        rest = [p for p in named if not (p.kind == p.POSITIONAL_OR_KEYWORD and pos.index(p) < npos)]
        for mask in range(1 << len(rest)):
            names = [p.name for j, p in enumerate(rest) if mask >> j & 1]
            if len(names) > 2:
                continue
            for extra in ([[], ["x"], ["x", "y"]] if has_kw else [[]]):
                kws = names + extra
                if len(kws) > 2:
                    continue
                try:
                    sig.bind(*([0] * npos), **{k: 0 for k in kws})
                except TypeError:
                    continue
                forms.append((npos, tuple(kws)))
    return forms


_FORMS = {i: _forms(fn) for i, (fn, cfg) in enumerate(TEMPLATES)}


def _canon(fn, cfg, args, kwargs):
    """What the call means, by Python's own binding rules: non-config parameter -> value token."""
    sig = inspect.signature(fn)
    ba = sig.bind(*args, **kwargs)
    ba.apply_defaults()
    out = []
    for name, val in ba.arguments.items():
        kind = sig.parameters[name].kind
        if kind == inspect.Parameter.VAR_KEYWORD:
            for k in sorted(val):
                if k not in cfg:
                    out.append((k, _tok(val[k])))
        elif name in cfg:
            continue
        elif kind == inspect.Parameter.VAR_POSITIONAL:
            out.append((name, tuple(_tok(v) for v in val)))
        else:
            out.append((name, _tok(val)))
    return out


def _tok(v):
    if isinstance(v, JobInfo):
        return "JOBINFO"
    return v.h


def _key(t, args, kwargs):
    """The evaluation key exactly as Scheduler computes it (defaults merged first)."""
    default_kwargs = get_arg_defaults(t, tuple(args), kwargs)
    return T.hash_args_eval(get_type_registry(), t, tuple(args), {**default_kwargs, **kwargs})[0]


def _mk_call(form, label, fn=None):
    npos, kws = form
    args = [Tok(fresh_int(label + "p")) for _ in range(npos)]
    kwargs = {k: Tok(fresh_int(label + "k")) for k in kws}
    if fn is _f_info:  # the `info` parameter always receives a job-info placeholder
        if npos >= 2:
            args[1] = JobInfo(job_id=label)
        if "info" in kwargs:
            kwargs["info"] = JobInfo(job_id=label)
    return args, kwargs


# ---------------------------------------------------------------------------------------------
# Conditions


def c15_separation(i: int) -> bool:
    """
    pre: i == SL()
    post: _
    """
    def body():
        ti = SL()
        fn, cfg = TEMPLATES[ti]
        t = _task(ti)
        forms = _FORMS[ti]
        f1 = forms[choose(len(forms), "form1")]
        f2 = forms[choose(len(forms), "form2")]
        a1, k1 = _mk_call(f1, "x", fn)
        a2, k2 = _mk_call(f2, "y", fn)
        e1 = _key(t, a1, k1)
        e2 = _key(t, a2, k2)
        c1 = _canon(fn, cfg, a1, k1)
        c2 = _canon(fn, cfg, a2, k2)
        if e1 == e2:
            # equal keys => the two calls mean the same (never a wrong cached answer)
            return c1 == c2
        if f1 == f2:
            # same call form and same non-config arguments => same key (config values do not matter)
            return c1 != c2
        return True
    return guard(body, i=i)


def c15_invariance(i: int) -> bool:
    """
    pre: i == SL()
    post: _
    """
    def body():
        ti = SL()
        fn, cfg = TEMPLATES[ti]
        t = _task(ti)
        forms = _FORMS[ti]
        f1 = forms[choose(len(forms), "form")]
        a1, k1 = _mk_call(f1, "x", fn)
        e1 = _key(t, a1, k1)
        sig = inspect.signature(fn)
        kind = choose(4, "transform")
        a2, k2 = list(a1), dict(k1)
        if kind == 0:  # keyword order
            k2 = {k: k1[k] for k in reversed(list(k1))}
        elif kind == 1:  # config argument values (and JobInfo placeholders) replaced
            ba = sig.bind(*a1, **k1)
            names = list(sig.parameters)
            pos = [p for p in sig.parameters.values() if p.kind in (p.POSITIONAL_ONLY, p.POSITIONAL_OR_KEYWORD)]
            for j in range(len(a2)):
                pname = pos[j].name if j < len(pos) else [p.name for p in sig.parameters.values() if p.kind == p.VAR_POSITIONAL][0]
                if pname in cfg:
                    a2[j] = Tok(fresh_int("cfg"))
            for k in list(k2):
                if k in cfg:
                    k2[k] = Tok(fresh_int("cfg"))
        elif kind == 2:  # a defaulted parameter passed by keyword with its default value
            ba = sig.bind(*a1, **k1)
            missing = [p for p in sig.parameters.values()
                       if p.name not in ba.arguments and p.default is not p.empty and p.kind != p.POSITIONAL_ONLY]
            if not missing:
                return True
            p = missing[choose(len(missing), "which_default")]
            k2[p.name] = p.default
        else:  # job-info placeholders: a fresh JobInfo object wherever one is passed / defaulted
            if fn is not _f_info:
                return True
            if len(a2) >= 2:
                a2[1] = JobInfo(job_id="other")
            elif "info" in k2:
                k2["info"] = JobInfo(job_id="other")
            else:
                k2["info"] = JobInfo(job_id="other")
        try:
            sig.bind(*a2, **k2)
        except TypeError:
            return True
        return _key(t, a2, k2) == e1
    return guard(body, i=i)


def c15_task_hash(h1: int, h2: int, a: int, b: int) -> bool:
    """
    post: _
    """
    def body():
        from redun.hashing import hash_eval
        reg = get_type_registry()
        e1, g1 = hash_eval(reg, h1, [Tok(a)], {"k": Tok(b)})
        e2, g2 = hash_eval(reg, h2, [Tok(a)], {"k": Tok(b)})
        return (e1 == e2) == (h1 == h2) and g1 == g2
    return guard(body, h1=h1, h2=h2, a=a, b=b)


SCALARS = [1, True, 1.0, "1", b"1", 0, False, 0.0, "", None, 2, (1,), [1]]


def _scalar_pair(i, j, order):
    """Keys of t(a) and t(b) for real (untokenised) argument values, hashed by the real type registry in this order."""
    t = _task(0)
    a, b = SCALARS[i], SCALARS[j]
    if order == 0:
        ea = _key(t, [a, D1], {})
        eb = _key(t, [b, D1], {})
    else:
        eb = _key(t, [b, D1], {})
        ea = _key(t, [a, D1], {})
    kw = _key(t, [D1], {"b": a}) == _key(t, [D1], {"b": b})
    same = type(a) is type(b) and a == b
    return (ea == eb) == same and kw == same


def c15_scalar_values(k: int) -> bool:
    """
    post: _
    """
    def body():
        # Python values that compare equal across types (1 == True == 1.0) are different arguments: whatever was hashed
        # before in this process, their evaluation keys differ; the solver picks the pair and the hashing order
        n = len(SCALARS)
        i, j, order = choose(n, "a"), choose(n, "b"), choose(2, "order")
        from crosshair.tracers import NoTracing
        with NoTracing():
            return _scalar_pair(i, j, order)
    return guard(body, k=k)


# ---------------------------------------------------------------------------------------------
# Leading type tags of hash pre-images, regenerated from the source tree


_UNTAGGED_OK = {("expression.py", "TaskExpression", "_calc_hash")}  # sorted export-option names: a sub-hash that is
# only ever embedded in the tagged "TaskExpression" pre-image two lines below it


def _leading_tags():
    """Every hash_struct(...) call site under redun/ with the leading tag(s) of its pre-image (from the AST;
    class-constant tags such as self.type_basename are resolved on the live classes incl. subclasses)."""
    root = os.path.dirname(redun.__file__)
    sites = []
    for path in sorted(glob.glob(os.path.join(root, "**", "*.py"), recursive=True)):
        rel = os.path.relpath(path, root)
        if rel.startswith("tests" + os.sep) or os.sep + "tests" + os.sep in rel:
            continue
        try:
            tree = ast.parse(open(path).read())
        except SyntaxError:
            continue
        modname = "redun." + rel[:-3].replace(os.sep, ".")
        if modname.endswith(".__init__"):
            modname = modname[:-9]

        def visit(node, cls, fn):
            for ch in ast.iter_child_nodes(node):
                if isinstance(ch, ast.ClassDef):
                    visit(ch, ch.name, fn)
                elif isinstance(ch, (ast.FunctionDef, ast.AsyncFunctionDef)):
                    visit(ch, cls, ch.name)
                else:
                    if isinstance(ch, ast.Call) and getattr(ch.func, "id", getattr(ch.func, "attr", None)) == "hash_struct":
                        sites.append((rel, ch.lineno, cls, fn, _resolve_tag(ch.args[0] if ch.args else None, modname, cls)))
                    visit(ch, cls, fn)

        visit(tree, None, None)
    kinds = {}
    for rel, line, cls, fn, tags in sites:
        for kind, tag in tags or []:
            kinds.setdefault(tag, set()).add((rel, kind or cls or fn))
    return {"sites": sites, "tags": sorted(kinds), "kinds": kinds}


def _resolve_tag(node, modname, cls):
    """-> list of (kind, tag) or None when the pre-image has no leading string tag."""
    while isinstance(node, ast.BinOp) and isinstance(node.op, ast.Add):
        node = node.left
    if not isinstance(node, (ast.List, ast.Tuple)) or not node.elts:
        return None
    first = node.elts[0]
    if isinstance(first, ast.Constant) and isinstance(first.value, str):
        return [(None, first.value)]
    if isinstance(first, ast.Attribute) and isinstance(first.value, ast.Name) and first.value.id == "self" and cls:
        try:
            klass = getattr(importlib.import_module(modname), cls)
        except Exception:
            return None
        out = []
        seen = set()
        todo = [klass]
        while todo:
            k = todo.pop()
            if k in seen:
                continue
            seen.add(k)
            todo.extend(k.__subclasses__())
            v = getattr(k, first.attr, None)
            if isinstance(v, str):
                out.append((k.__name__, v))
        return out or None
    return None


def c15_type_tags(k: int) -> bool:
    """
    post: _
    """
    def body():
        from crosshair.tracers import NoTracing
        with NoTracing():
            return _type_tags_ok()[0]
    return guard(body, k=k)


def _type_tags_ok():
    import z3
    info = _leading_tags()
    untagged = [s for s in info["sites"] if s[4] is None and (s[0], s[2], s[3]) not in _UNTAGGED_OK]
    if untagged:
        return False, "hash pre-image without a leading string tag at %r" % (untagged[:3],)
    # one z3 constant per (record kind, tag); kinds that denote different record types must carry Distinct tags
    per_kind = {}
    for tag, ks in info["kinds"].items():
        for kind in ks:
            per_kind.setdefault(kind, set()).add(tag)
    kinds = sorted(per_kind)
    s = z3.Solver()
    clash = []
    for i in range(len(kinds)):
        for j in range(i + 1, len(kinds)):
            if _same_record_kind(kinds[i], kinds[j]):
                continue
            for a in per_kind[kinds[i]]:
                for b in per_kind[kinds[j]]:
                    clash.append(z3.StringVal(a) == z3.StringVal(b))
    s.add(z3.Or(*clash) if clash else z3.BoolVal(False))
    r = str(s.check())
    if r != "unsat":
        both = [(t, sorted(ks)) for t, ks in info["kinds"].items()
                if any(not _same_record_kind(a, b) for a in ks for b in ks if a != b)]
        return False, "two different record kinds share a leading tag: %r" % (both[:3],)
    return True, "%d sites, %d kinds, %d tags" % (len(info["sites"]), len(kinds), len(info["kinds"]))


def _same_record_kind(a, b):
    """Two sites build the same kind of record when they are methods of one class hierarchy position
    (same file and same class / function name)."""
    if a == b:
        return True
    F = importlib.import_module("redun.file")
    fs = lambda k: k[0] == "file.py" and isinstance(getattr(F, k[1], None), type) and issubclass(getattr(F, k[1]), F.FileSystem)
    return fs(a) and fs(b)  # FileSystem.get_hash implementations all build the one "File" record kind


_N = len(TEMPLATES)
CONDITIONS = [
    Condition(c15_separation, slices=list(range(_N)), timeout=150, thorough_timeout=900,
              bounds="slice = signature template (see TEMPLATES: positional, defaults, *args, keyword-only, **kwargs, "
                     "positional-only, JobInfo default; config_args none/positional/defaulted/keyword-only/variadic); two calls "
                     "of every pair of call forms (<=5 positional incl. 2 variadic, <=2 keywords), all integer tokens"),
    Condition(c15_invariance, slices=list(range(_N)), timeout=150, thorough_timeout=900,
              bounds="same templates; one call of every form and its image under keyword reordering / new config values / "
                     "default passed by keyword / another JobInfo object"),
    Condition(c15_scalar_values, timeout=120,
              bounds="two calls whose argument is a real Python value from %r (real pickle-based value hashes), both hashing "
                     "orders; equal keys <=> same type and value" % (SCALARS,)),
    Condition(c15_task_hash, timeout=60, bounds="hash_eval over all integer task-hash and argument tokens"),
    Condition(c15_type_tags, timeout=60, bounds="all hash_struct call sites under redun/ (AST), z3 Distinct on the literal tags"),
]


# ---------------------------------------------------------------------------------------------
def replay(cond, args, extra):
    """Real SHA digests; for separation failures also the consequence through Scheduler.run."""
    ch = [c[1] for c in extra["choices"]]
    labels = [c[0] for c in extra["choices"]]
    if cond in ("c15_task_hash",):
        from redun.hashing import hash_eval
        reg = get_type_registry()
        e1, _ = hash_eval(reg, str(args["h1"]), [Tok("a%d" % args["a"])], {})
        e2, _ = hash_eval(reg, str(args["h2"]), [Tok("a%d" % args["a"])], {})
        bad = (e1 == e2) != (args["h1"] == args["h2"])
        return bad, "hash_eval task-hash sensitivity", None
    if cond == "c15_scalar_values":
        i, j, order = ch[0], ch[1], ch[2]
        return (not _scalar_pair(i, j, order)), "arguments %r vs %r (hashed in order %d): evaluation keys %s" % (
            SCALARS[i], SCALARS[j], order, "coincide/differ wrongly"), None
    if cond == "c15_type_tags":
        ok, detail = _type_tags_ok()
        return (not ok), detail, None
    ti = extra["slice"]
    fn, cfg = TEMPLATES[ti]
    t = _task(ti)
    forms = _FORMS[ti]
    it = iter(extra["choices"])

    def nxt(label=None):
        return next(it)[1]

    def mk(form, label="x"):
        npos, kws = form
        a = [Tok("tok%d" % nxt()) for _ in range(npos)]
        k = {kw: Tok("tok%d" % nxt()) for kw in kws}
        if fn is _f_info:
            if npos >= 2:
                a[1] = JobInfo(job_id=label)
            if "info" in k:
                k["info"] = JobInfo(job_id=label)
        return a, k

    if cond == "c15_separation":
        f1 = forms[nxt()]
        f2 = forms[nxt()]
        a1, k1 = mk(f1)
        a2, k2 = mk(f2, 'y')
        e1, e2 = _key(t, a1, k1), _key(t, a2, k2)
        c1, c2 = _canon(fn, cfg, a1, k1), _canon(fn, cfg, a2, k2)
        desc = "%s%s config_args=%r: call1 %r %r, call2 %r %r" % (fn.__name__, inspect.signature(fn), cfg, a1, k1, a2, k2)
        if e1 == e2 and c1 != c2:
            ran = _run_both(fn, cfg, a1, k1, a2, k2)
            return True, desc + " -> SAME evaluation key although non-config arguments differ; through Scheduler.run: " + ran, \
                "variadic-misaligned-with-signature"
        if e1 != e2 and f1 == f2 and c1 == c2:
            return True, desc + " -> DIFFERENT keys although only config arguments differ", "config-arg-not-ignored"
        return False, desc + " ok"
    if cond == "c15_invariance":
        return _replay_invariance(fn, cfg, t, forms, nxt, mk)
    return None, "unknown condition"


def _replay_invariance(fn, cfg, t, forms, nxt, mk):
    sig = inspect.signature(fn)
    f1 = forms[nxt()]
    a1, k1 = mk(f1)
    kind = nxt()
    a2, k2 = list(a1), dict(k1)
    names = ["keyword order", "config values", "default by keyword", "JobInfo placeholder"]
    if kind == 0:
        k2 = {k: k1[k] for k in reversed(list(k1))}
    elif kind == 1:
        pos = [p for p in sig.parameters.values() if p.kind in (p.POSITIONAL_ONLY, p.POSITIONAL_OR_KEYWORD)]
        for j in range(len(a2)):
            pname = pos[j].name if j < len(pos) else [p.name for p in sig.parameters.values() if p.kind == p.VAR_POSITIONAL][0]
            if pname in cfg:
                a2[j] = Tok("cfg%d" % nxt())
        for k in list(k2):
            if k in cfg:
                k2[k] = Tok("cfg%d" % nxt())
    elif kind == 2:
        ba = sig.bind(*a1, **k1)
        missing = [p for p in sig.parameters.values()
                   if p.name not in ba.arguments and p.default is not p.empty and p.kind != p.POSITIONAL_ONLY]
        if not missing:
            return False, "no defaulted parameter left"
        p = missing[nxt()]
        k2[p.name] = p.default
    else:
        if fn is not _f_info:
            return False, "n/a"
        if len(a2) >= 2:
            a2[1] = JobInfo(job_id="other")
        else:
            k2["info"] = JobInfo(job_id="other")
    try:
        sig.bind(*a2, **k2)
    except TypeError:
        return False, "transformed call not accepted by Python"
    e1, e2 = _key(t, a1, k1), _key(t, a2, k2)
    desc = "%s%s config_args=%r: %r %r vs %r %r (%s)" % (fn.__name__, sig, cfg, a1, k1, a2, k2, names[kind])
    if e1 != e2:
        return True, desc + " -> keys differ", "default-by-keyword-variadic" if kind == 2 else None
    return False, desc + " ok"


def _run_both(fn, cfg, a1, k1, a2, k2):
    """Observable consequence: second call served from the first call's cache entry."""
    from redun import Scheduler

    calls = []

    def body(*a, **k):
        calls.append(1)
        return len(calls)

    body.__signature__ = inspect.signature(fn)
    src = "def run%s:\n    return _body(%s)\n" % (
        str(inspect.signature(fn)).replace("Tok(1001)", "D1").replace("Tok(1002)", "D2").replace("Tok(1003)", "D3")
        .replace(repr(inspect.signature(_f_info).parameters["info"].default), "None"),
        ", ".join(_pass(p) for p in inspect.signature(fn).parameters.values()))
    ns = {"_body": body, "D1": D1, "D2": D2, "D3": D3}
    exec(src, ns)
    ns["run"].__module__ = __name__
    t = task_decorator(name="replay_%s_%d" % (fn.__name__, len(cfg)), namespace=redun_namespace, config_args=cfg,
                       version="1")(ns["run"])
    s = Scheduler()
    s.load()
    r1 = s.run(t(*a1, **k1))
    r2 = s.run(t(*a2, **k2))
    return "first call -> body run #%s, second (different) call -> %s (body executed %d time(s))" % (r1, r2, len(calls))


def _pass(p):
    if p.kind == p.VAR_POSITIONAL:
        return "*" + p.name
    if p.kind == p.VAR_KEYWORD:
        return "**" + p.name
    if p.kind == p.KEYWORD_ONLY:
        return "%s=%s" % (p.name, p.name)
    return p.name
