"""C09 — Executions terminate with every job settled.

Same laboratory as C08 (stub S6, see vp/stubs/schedlab.py): the real Scheduler and SQLite backend run natively, the
resource arithmetic runs symbolically (limit and per-job demand are symbolic integers with demand <= limit), the workflow
shape and the completion schedule are solver choice variables.  Asserted: the run never reaches "event queue empty,
nothing in flight, workflow pending"; it returns the value (or raises one of the admissible errors) the template
prescribes; afterwards nothing is left in flight, waiting for limits or in the pending-job table, and every job row of the
execution has ended.
"""
import importlib

from vp.core import SL, Condition, choose, guard, native
from vp.harness import c08 as L
from vp.harness import schedprog as P

db = importlib.import_module("redun.backends.db")

PROPERTY = "C09"
FUNCTIONS = L.FUNCTIONS + ["redun.scheduler.Scheduler._finalize_job", "Scheduler._check_pending_job", "Scheduler._get_cache"]
ASSUMPTIONS = L.ASSUMPTIONS + [
    "every task function of the templates terminates; no job demands more than the configured limit",
    "a caught failure whose exception object cannot be pickled may make run raise TypeError when the object is handed to the "
    "recover task (task arguments are hashed by pickling; the stock scheduler behaves the same): counted as termination",
]
install = L.install


def check_c09(lab, outcome, spec, with_bad, salt):
    """-> None or a description of the violation."""
    want, errors = P.expected(spec, with_bad)
    if outcome[0] == "deadlock":
        return "the execution never terminates: " + outcome[1]
    if outcome[0] == "ok":
        if errors:
            return "run returned %r although leaf failure(s) %r are not caught" % (outcome[1], errors)
        if outcome[1] != want:
            return "run returned %r, expected %r" % (outcome[1], want)
        left = lab.leftovers()
        if left:
            return "run returned but " + "; ".join(left)
        if lab.sched._jobs:
            return "run returned but %d job(s) were never finalized" % len(lab.sched._jobs)
    else:
        err = outcome[1]
        if P.unpicklable_outcome(spec, outcome):
            # an exception object that cannot be pickled cannot be passed to the recover task (task arguments are hashed by
            # pickling): run raises TypeError - as the stock scheduler does for the same program.  The run has terminated,
            # which is what C09 states; it is not counted as a wrong outcome.
            return None
        if not errors:
            return "run raised %r although every failure is caught" % (err,)
        if not (isinstance(err, P.LeafError) and str(err) in errors):
            return "run raised %r, expected LeafError with one of %r" % (err, errors)
    return None


def c09_terminates(k: int) -> bool:
    """
    post: _
    """
    def body():
        n, first, early, form, mid, with_bad, menu, fixed = SL()
        spec = L.pick_case(n, first, menu, fixed)
        mid_limits = ["r"] if mid else None
        limits, leaf_limits, _, _ = L.symbolic_limits(form)

        def run():
            lab, outcome, salt = P.run_case(spec, choose, limits, leaf_limits, mid_limits, early=early, symbolic=True,
                                            with_bad=int(with_bad), hog_limits=L._hog(limits))
            return check_c09(lab, outcome, spec, int(with_bad), salt) is None
        return native(run)
    return guard(body, k=k)


CONDITIONS = [
    Condition(c09_terminates, slices=L._Q, thorough_slices=L._T, timeout=300, thorough_timeout=2400,
              bounds=L.CONDITIONS[0].bounds),
]


def replay(cond, args, extra):
    """Stock scheduler loop semantics with concrete limits; the schedule is forced through the lab, then confirmed on the stock
    thread executor with a watchdog when the lab reports a hang."""
    lab, outcome, desc, spec, with_bad = L.replay_case(extra)
    v = check_c09(lab, outcome, spec, with_bad, None)
    if v is None:
        return False, desc + ": terminates with the prescribed outcome"
    fid = None
    if outcome[0] == "deadlock":
        fid = "lost-wakeup-pending-limits"
        v += " | stock thread executor: " + _stock_run(spec, lab.sched.limits, extra)
    return True, "%s: %s" % (desc, v), fid


def _stock_run(spec, limits, extra):
    """The same program on the stock thread executor, with a watchdog."""
    import threading
    from redun import Scheduler
    form = extra["slice"][3]
    s = Scheduler()
    s.load()
    s.limits = dict(limits)
    done = {}

    def go():
        try:
            done["value"] = s.run(P.main(P.new_salt(), list(spec)))
        except Exception as e:
            done["error"] = e
    t = threading.Thread(target=go, daemon=True)
    t.start()
    t.join(20)
    if t.is_alive():
        return "Scheduler.run still blocked after 20 s (jobs waiting for limits: %d, limits_used %r)" % (
            len(s._jobs_pending_limits), dict(s.limits_used))
    return "finished: %r" % (done,)
