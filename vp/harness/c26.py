"""C26 — Context is inherited and overridden as documented.

Real code executed symbolically (no stubs): redun.utils.merge_dicts, redun.context.get_context_value,
redun.scheduler.Job.get_context (real Job / Execution / Task / TaskExpression objects), Task.update_context,
and the root-context merge performed by Scheduler.run.
"""
import copy
import importlib

from redun import task as task_decorator
from redun.expression import TaskExpression
from vp.core import SL, Condition, choose, guard, native

U = importlib.import_module("redun.utils")
CTX = importlib.import_module("redun.context")
S = importlib.import_module("redun.scheduler")

PROPERTY = "C26"
FUNCTIONS = ["redun.utils.merge_dicts", "redun.context.get_context_value", "redun.scheduler.Job.get_context",
             "redun.task.Task.update_context", "redun.scheduler.Job.get_option/get_options/get_raw_options"]
ASSUMPTIONS = [
    "contexts are built from the value menu VALUES (absent, scalar, {}, one- and two-key mappings, a depth-2 mapping) for the "
    "key 'a' plus a scalar key 'b'; at most 4 merged dicts / 3 jobs in a chain",
    "evaluation of expression-valued context entries and the get_context scheduler task's promise plumbing need a scheduler "
    "run and are outside",
]

redun_namespace = "vp_c26"
MISSING = object()


def _values(tag):
    """Menu of values the key 'a' can have in one context dict; scalars are tagged by the dict they come from."""
    return [
        MISSING, ("s", tag), {}, {"x": ("x", tag)}, {"y": ("y", tag)}, {"x": ("x", tag), "y": ("y", tag)},
        {"x": {"z": ("z", tag)}}, {"x": {}}, None, {"x": None}, 0,
    ]


NVAL = 11


def _ctx(tag, which, with_b):
    d = {}
    v = _values(tag)[which]
    if v is not MISSING:
        d["a"] = v
    if with_b:
        d["b"] = ("b", tag)
    return d


def ref_merge2(a, b):
    """The documented two-way deep merge: later wins, mappings are merged key by key."""
    if isinstance(a, dict) and isinstance(b, dict):
        out = dict(a)
        for k, v in b.items():
            out[k] = ref_merge2(a[k], v) if k in a else v
        return out
    return b


def ref_fold(dicts):
    acc = dicts[0]
    for d in dicts[1:]:
        acc = ref_merge2(acc, d)
    return acc


def ref_lookup(ctx, path, default):
    v = ctx
    for part in path.split("."):
        if not isinstance(v, dict) or part not in v:
            return default
        v = v[part]
    return v


PATHS = ["a", "a.x", "a.x.z", "a.y", "b", "a.q", "q", "a.x.z.w", "b.x", ""]


def _pick_dicts(n):
    return [_ctx(i, choose(NVAL, "val"), choose(2, "has_b") == 1) for i in range(n)]


def c26_merge(k: int) -> bool:
    """
    post: _
    """
    def body():
        dicts = _pick_dicts(SL())

        def run():
            snapshot = copy.deepcopy(dicts)
            got = U.merge_dicts(list(dicts))
            # inputs are not mutated, result equals the left fold of the documented two-way merge
            return got == ref_fold(snapshot) and dicts == snapshot
        return native(run)
    return guard(body, k=k)


def c26_lookup(k: int) -> bool:
    """
    post: _
    """
    def body():
        ctx = ref_fold(_pick_dicts(2))
        path = PATHS[choose(len(PATHS), "path")]
        default = ("default",)
        return CTX.get_context_value(ctx, path, default) == ref_lookup(ctx, path, default)
    return guard(body, k=k)


CHAIN_VALS = [0, 1, 3, 4, 6, 9]  # indices into the value menu used for job chains


def _t():
    global _TASK
    try:
        return _TASK
    except NameError:
        def f(x=0):
            return x
        _TASK = task_decorator(name="ctx_task", namespace=redun_namespace, version="1")(f)
        return _TASK


def _chain(root_ctx, overrides, via):
    """Real Execution + chain of real Jobs; each job's override given through `via`:
    'options' = Job(options={'_context_override': ...}) as Scheduler.run does for the root,
    'expr'    = task.update_context(ctx)(...) call-time option on the expression."""
    t = _t()
    execution = S.Execution("e", context=root_ctx)
    parent = None
    jobs = []
    for i, ov in enumerate(overrides):
        if ov is None:
            expr, opts = t(i), None
        elif via == "options":
            expr, opts = t(i), {"_context_override": ov}
        else:
            expr, opts = t.update_context(ov)(i), None
        job = S.Job(t, expr, id="j%d" % i, parent_job=parent, execution=execution, options=opts)
        jobs.append(job)
        parent = job
    return jobs


def c26_job_chain(k: int) -> bool:
    """
    post: _
    """
    def body():
        n = SL()
        root = _ctx("root", CHAIN_VALS[choose(len(CHAIN_VALS), "val")], True)
        overrides = []
        for i in range(n):
            w = choose(len(CHAIN_VALS) + 1, "override")
            overrides.append(None if w == 0 else _ctx(i, CHAIN_VALS[w - 1], i == 1))
        via = ["options", "expr"][choose(2, "via")]
        # query in a solver-chosen order (get_context caches): leaf first or root first
        order = list(range(n)) if choose(2, "order") == 0 else list(reversed(range(n)))

        def run():  # everything below is concrete on this path: run the real code natively
            jobs = _chain(root, overrides, via)
            got = {}
            for i in order:
                got[i] = jobs[i].get_context()
            want = root
            for i in range(n):
                want = ref_merge2(want, overrides[i] or {})
                if got[i] != want:
                    return False
            return True
        return native(run)
    return guard(body, k=k)


def c26_update_context(k: int) -> bool:
    """
    post: _
    """
    def body():
        # task.update_context(c1).update_context(c2, **kw): the accumulated override is the fold c1 <- c2 <- kw
        t = _t()
        c1 = _ctx(1, choose(NVAL, "val"), False)
        c2 = _ctx(2, choose(NVAL, "val"), False)
        kw = _ctx(3, choose(NVAL, "val"), choose(2, "has_b") == 1)
        def run():
            t2 = t.update_context(c1).update_context(c2, **kw)
            got = t2.get_task_option("_context_override")
            return got == ref_fold([{}, c1, c2, kw])
        return native(run)
    return guard(body, k=k)


def c26_root(k: int) -> bool:
    """
    post: _
    """
    def body():
        # the root context: configured context merged with the context passed to run (Scheduler.run's expression)
        configured = _ctx("cfg", choose(NVAL, "val"), True)
        passed = _ctx("run", choose(NVAL, "val"), choose(2, "has_b") == 1)
        return U.merge_dicts([configured, passed]) == ref_merge2(configured, passed)
    return guard(body, k=k)


def _runs(configured, passed):
    """Real Scheduler, in-memory backend: successive run() calls with a context each; returns the root contexts the
    executions were given and what a task sees through get_context."""
    import logging
    from redun import Scheduler
    logging.disable(logging.CRITICAL)
    seen = []
    orig = S.Execution.__init__

    def spy(self, id=None, context=None):
        orig(self, id, context)
        seen.append(self)
    S.Execution.__init__ = spy
    try:
        sched = Scheduler()
        sched.load()
        sched._context = copy.deepcopy(configured)
        t = _t()
        results = []
        for i, ctx in enumerate(passed):
            sched.run(t.options(cache=False)(i), context=copy.deepcopy(ctx))
            results.append(seen[-1].job.get_context())
    finally:
        S.Execution.__init__ = orig
    return [e.context for e in seen], results, sched._context


RUN_VALS = [0, 1, 3, 6, 8]


def c26_root_runs(k: int) -> bool:
    """
    post: _
    """
    def body():
        configured = _ctx("cfg", RUN_VALS[choose(len(RUN_VALS), "val")], True)
        passed = [_ctx(i, RUN_VALS[choose(len(RUN_VALS), "val")], i == 0) for i in range(SL())]

        def run():
            roots, jobctx, after = _runs(configured, passed)
            for i, p in enumerate(passed):
                want = ref_merge2(configured, p)
                if roots[i] != want or jobctx[i] != want:
                    return False
            return after == configured  # the configured context itself is not changed by running
        return native(run)
    return guard(body, k=k)


CONDITIONS = [
    Condition(c26_merge, slices=[1, 2, 3], thorough_slices=[1, 2, 3, 4], timeout=330, thorough_timeout=1200,
              bounds="merge_dicts over n = slice dicts, key 'a' from the menu of %d values, key 'b' present or not" % NVAL),
    Condition(c26_lookup, timeout=120, bounds="get_context_value on every merged 2-dict context, paths %r" % (PATHS,)),
    Condition(c26_job_chain, slices=[1, 2], thorough_slices=[1, 2, 3], timeout=170, thorough_timeout=1200,
              bounds="chain of n = slice real Jobs under an Execution, each with no override or one from the menu, given as job "
                     "option or as call-time update_context; contexts read leaf-first or root-first"),
    Condition(c26_update_context, timeout=170, thorough_timeout=900,
              bounds="update_context(c1).update_context(c2, **kw), each from the menu"),
    Condition(c26_root, timeout=60, bounds="configured context x run context from the menu"),
    Condition(c26_root_runs, slices=[2], thorough_slices=[2, 3], timeout=170, thorough_timeout=1200,
              bounds="real Scheduler.run called slice times in a row on one scheduler (in-memory backend), configured context "
                     "and each passed context from a 5-value menu; root context of every execution and the root job's context"),
]


def replay(cond, args, extra):
    ch = iter([c[1] for c in extra["choices"]])
    nx = lambda: next(ch)
    if cond == "c26_merge":
        dicts = [_ctx(i, nx(), nx() == 1) for i in range(extra["slice"])]
        got = U.merge_dicts(list(dicts))
        want = ref_fold(dicts)
        if got != want:
            three = len(dicts) >= 3
            return True, "merge_dicts(%r) = %r, the fold of two-way merges gives %r" % (dicts, got, want), \
                ("nary-merge-not-a-fold" if three and _is_nary_case(dicts) else None)
        return False, "ok"
    if cond == "c26_lookup":
        ctx = ref_fold([_ctx(i, nx(), nx() == 1) for i in range(2)])
        path = PATHS[nx()]
        got = CTX.get_context_value(ctx, path, ("default",))
        want = ref_lookup(ctx, path, ("default",))
        return got != want, "get_context_value(%r, %r) = %r, expected %r" % (ctx, path, got, want), None
    if cond == "c26_job_chain":
        n = extra["slice"]
        root = _ctx("root", CHAIN_VALS[nx()], True)
        overrides = []
        for i in range(n):
            w = nx()
            overrides.append(None if w == 0 else _ctx(i, CHAIN_VALS[w - 1], i == 1))
        via = ["options", "expr"][nx()]
        jobs = _chain(root, overrides, via)
        order = list(range(n)) if nx() == 0 else list(reversed(range(n)))
        got = {i: jobs[i].get_context() for i in order}
        want = root
        for i in range(n):
            want = ref_merge2(want, overrides[i] or {})
            if got[i] != want:
                return True, "root %r overrides %r (via %s): job %d context %r, expected %r" % (root, overrides, via, i, got[i], want), None
        return False, "ok"
    if cond == "c26_update_context":
        t = _t()
        c1, c2 = _ctx(1, nx(), False), _ctx(2, nx(), False)
        kw = _ctx(3, nx(), nx() == 1)
        got = t.update_context(c1).update_context(c2, **kw).get_task_option("_context_override")
        want = ref_fold([{}, c1, c2, kw])
        if got != want:
            return True, "update_context(%r).update_context(%r, **%r) -> %r, expected %r" % (c1, c2, kw, got, want), \
                ("nary-merge-not-a-fold" if _is_nary_case([c1, c2, kw]) else None)
        return False, "ok"
    if cond == "c26_root_runs":
        configured = _ctx("cfg", RUN_VALS[nx()], True)
        passed = [_ctx(i, RUN_VALS[nx()], i == 0) for i in range(extra["slice"])]
        roots, jobctx, after = _runs(configured, passed)
        for i, p in enumerate(passed):
            want = ref_merge2(configured, p)
            if roots[i] != want or jobctx[i] != want:
                return True, "configured %r, run #%d with context %r (after runs with %r): root context %r, expected %r" % (
                    configured, i, p, passed[:i], roots[i], want), None
        if after != configured:
            return True, "configured context changed by running: %r -> %r" % (configured, after), None
        return False, "ok"
    if cond == "c26_root":
        a, b = _ctx("cfg", nx(), True), _ctx("run", nx(), nx() == 1)
        return U.merge_dicts([a, b]) != ref_merge2(a, b), "root merge of %r and %r" % (a, b), None
    return None, "?"


def _is_nary_case(dicts):
    """The listed finding: at some key, a non-mapping is followed by two or more mappings."""
    def walk(vals):
        kinds = [isinstance(v, dict) for v in vals]
        for i, is_d in enumerate(kinds):
            if not is_d and sum(kinds[i + 1:]) >= 2 and all(kinds[i + 1:]):
                return True
        keys = set(k for v in vals if isinstance(v, dict) for k in v)
        return any(walk([v[k] for v in vals if isinstance(v, dict) and k in v]) for k in keys)
    return walk(list(dicts))
