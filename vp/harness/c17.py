"""C17 — Task hashes track code identity.

Real code executed symbolically: redun.task.Task._calc_hash, Task.fullname/_format_fullname, PartialTask._calc_hash,
redun.utils.get_func_source (inspect.getsource stubbed to symbolic source lines).  Natively, on solver-chosen edit
sequences: the real `task`/`wraps_task` decorators on modules written to disk and reloaded (real inspect, real SHA), and
PartialTask.partial chains.
"""
import importlib
import os
import random
import shutil
import sys
import tempfile

from vp.core import SL, Condition, assume, choose, fresh, guard, native
from vp.stubs.common import Tok, install_struct_hash, selftest_struct_hash

T = importlib.import_module("redun.task")
U = importlib.import_module("redun.utils")

PROPERTY = "C17"
FUNCTIONS = ["redun.task.Task._calc_hash", "redun.task.Task.fullname", "redun.task.PartialTask._calc_hash",
             "redun.task.PartialTask.partial", "redun.utils.get_func_source", "redun.task.wraps_task (hash_includes of the "
             "hidden inner task)", "redun.task.Task.__init__/recompute_hash"]
ASSUMPTIONS = [
    "S2 structural hash (SHA collision-freedom + bencode injectivity) and a structural type registry: the hash of an option "
    "dict / include value is its canonical pre-image, the hash of a token value is a symbolic int",
    "symbolic names / namespaces / source / version strings of <= 2 characters (names without '.', as Task._validate requires)",
    "inspect.getsource replaced by symbolic source lines for get_func_source: <= 2 decorator lines '@'+<=2 chars, then a "
    "def / async def line at indentation 0 or 4; inspect itself is outside",
    "edit sequences on reloaded modules: real inspect and real SHA (no stubs), menu of edits listed in EDITS",
]


class _StructRegistry:
    """Type registry whose get_hash is structural (keeps tokens symbolic)."""

    def get_hash(self, value, data=None):
        if isinstance(value, Tok):
            return value.h
        if isinstance(value, T.Task):
            return ("task", value.hash)
        if isinstance(value, dict):
            return ("dict",) + tuple((k, self.get_hash(v)) for k, v in sorted(value.items()))
        if isinstance(value, (list, tuple)):
            return ("seq",) + tuple(self.get_hash(v) for v in value)
        return ("val", value)


_REG = _StructRegistry()


_SYMBOLIC = ("c17_sensitivity", "c17_partial", "c17_func_source")


def warmup(cond):
    # stubs only for the symbolic conditions; the edit / partial-chain conditions use real inspect and real SHA
    if cond in _SYMBOLIC:
        install_struct_hash()
        T.get_type_registry = lambda: _REG


def self_test(seed):
    return {"struct_hash_pairs": selftest_struct_hash(random.Random(seed), 200)}


def _mk(name, namespace, source, version, includes, overrides, base):
    t = T.Task.__new__(T.Task)
    t.name = name
    t.namespace = namespace
    t.source = source
    t.version = version
    t.compat = []
    t.func = None
    t._hash_includes = includes
    t._task_options_override = overrides
    t._task_options_base = base
    return t


def _s(label, n=2, nodot=False):
    v = fresh(str, label)
    assume(len(v) <= n)
    if nodot:
        assume("." not in v)
    return v


DIMS = ["name", "namespace", "source", "version", "include_value", "include_order", "override_value", "override_added",
        "definition_option", "nothing"]


def c17_sensitivity(k: int) -> bool:
    """
    post: _
    """
    def body():
        versioned, dim = SL()
        dim = DIMS[dim]
        name, ns = _s("name", 2, True), _s("ns")
        assume(len(name) >= 1)
        src, ver = _s("src"), (_s("ver") if versioned else None)
        assume(len(src) >= 1)  # a task's source text is never empty
        i1, i2 = Tok(fresh(int, "inc")), Tok(fresh(int, "inc"))
        ov = Tok(fresh(int, "ov"))
        a = _mk(name, ns, src, ver, [i1, i2], {"o": ov}, {"d": 1})
        same_hash = True  # expected relation between the two hashes
        name2, ns2, src2, ver2, inc2, ovr2, base2 = name, ns, src, ver, [i1, i2], {"o": ov}, {"d": 1}
        if dim == "name":
            name2 = _s("name2", 2, True)
            assume(len(name2) >= 1)
        elif dim == "namespace":
            ns2 = _s("ns2")
        elif dim == "source":
            src2 = _s("src2")
            assume(len(src2) >= 1)
        elif dim == "version":
            if not versioned:
                return True
            ver2 = _s("ver2")
        elif dim == "include_value":
            inc2 = [i1, Tok(fresh(int, "inc2"))]
        elif dim == "include_order":
            inc2 = [i2, i1]
        elif dim == "override_value":
            ovr2 = {"o": Tok(fresh(int, "ov2"))}
        elif dim == "override_added":
            ovr2 = {"o": ov, "p": Tok(fresh(int, "ov2"))}
        elif dim == "definition_option":
            base2 = {"d": 2, "e": 3}
        b = _mk(name2, ns2, src2, ver2, inc2, ovr2, base2)
        ha, hb = a._calc_hash(), b._calc_hash()
        if dim in ("definition_option", "include_order", "nothing"):
            return ha == hb
        if dim == "name" or dim == "namespace":
            return (ha == hb) == (a.fullname == b.fullname)
        if dim == "source":
            return (ha == hb) == (src == src2 or versioned)
        if dim == "version":
            return (ha == hb) == (ver == ver2)
        if dim == "include_value":
            return (ha == hb) == (sorted([i1.h, i2.h]) == sorted([i1.h, inc2[1].h]))
        if dim == "override_value":
            return (ha == hb) == (ov.h == ovr2["o"].h)
        return ha != hb  # an added call-time override always changes the hash
    return guard(body, k=k)


def c17_partial(k: int) -> bool:
    """
    post: _
    """
    def body():
        # a partial task's hash reflects the inner task's hash and its bound arguments
        src1, src2 = _s("src"), _s("src")
        assume(len(src1) >= 1 and len(src2) >= 1)
        t1 = _mk("f", "ns", src1, None, None, {}, {})
        t2 = _mk("f", "ns", src2, None, None, {}, {})
        t1.hash, t2.hash = t1._calc_hash(), t2._calc_hash()
        a1, a2, k1, k2 = (Tok(fresh(int, "arg")) for _ in range(4))

        def partial(t, a, kw):
            p = T.PartialTask.__new__(T.PartialTask)
            p.task, p.args, p.kwargs = t, (a,), {"k": kw}
            return p._calc_hash()
        h1, h2 = partial(t1, a1, k1), partial(t2, a2, k2)
        return (h1 == h2) == (src1 == src2 and a1.h == a2.h and k1.h == k2.h)
    return guard(body, k=k)


def c17_func_source(k: int) -> bool:
    """
    post: _
    """
    def body():
        ndeco, is_async, indent = SL()
        decos = ["@" + _s("deco") for _ in range(ndeco)]
        for d in decos:
            assume("\n" not in d)
        pad = " " * indent
        defline = pad + ("async def f():" if is_async else "def f():")
        bodyline = pad + "    return " + _s("body", 1)
        assume("\n" not in bodyline)
        text = "\n".join([pad + d for d in decos] + [defline, bodyline]) + "\n"
        real = U.inspect.getsource
        U.inspect.getsource = lambda func: text
        try:
            got = U.get_func_source(None)
        finally:
            U.inspect.getsource = real
        # the source used for hashing starts at the def line: decorator lines do not matter
        return got == "\n".join([defline, bodyline]) + "\n"
    return guard(body, k=k)


# ---------------------------------------------------------------------------------------------
# real modules, real inspect, real hashes: solver-chosen edit sequences

EDITS = ["none", "body_constant", "default_value", "comment_in_body", "decorator_only", "definition_option", "version_added",
         "inner_body (wrapped)", "helper_default (hash_includes)", "rename"]

_TEMPLATE = '''
from redun import task
from redun.task import wraps_task

redun_namespace = "vp_c17_{uid}"

def helper(x, factor={helper_default}):
    return x * factor

@wraps_task()
def doubled(inner):
    def run(*a, **k):
        return inner.func(*a, **k)
    return run

@task({task_args})
def {name}(x, y={default}):
    {comment}
    return x + {const}

@doubled
{decorator_extra}@task()
def wrapped(x):
    return x + {inner_const}

@task(hash_includes=[helper])
def uses_helper(x):
    return helper(x)
'''

_UID = [0]


def _render(state):
    args = []
    if state["defopt"]:
        args.append("memory=%d" % state["defopt"])
    if state["version"]:
        args.append("version=%r" % state["version"])
    return _TEMPLATE.format(
        uid=state["uid"], helper_default=state["helper_default"], task_args=", ".join(args), name=state["name"],
        default=state["default"], comment="# c%d" % state["comment"], const=state["const"],
        decorator_extra="# deco %d\n" % state["deco"] if state["deco"] else "", inner_const=state["inner_const"])


def _load(dirpath, state, first):
    path = os.path.join(dirpath, "vp_c17_mod_%d.py" % state["uid"])
    with open(path, "w") as f:
        f.write(_render(state))
    importlib.invalidate_caches()
    import linecache
    linecache.clearcache()
    modname = "vp_c17_mod_%d" % state["uid"]
    if first:
        mod = importlib.import_module(modname)
    else:
        # make sure the rewritten file is re-read even within the same second
        os.utime(path, (1, 10 ** 9 + state["step"]))
        mod = importlib.reload(sys.modules[modname])
    return mod


def _hashes(mod, state):
    return {"main": getattr(mod, state["name"]).hash, "wrapped": mod.wrapped.hash, "uses_helper": mod.uses_helper.hash}


def _run_edits(edits):
    """Apply the edits one after the other to a module on disk, reloading it each time; compare task hashes before and
    after each edit with what the statement prescribes."""
    _UID[0] += 1
    d = tempfile.mkdtemp(prefix="vp_c17_")
    sys.path.insert(0, d)
    state = dict(uid=_UID[0] * 1000 + os.getpid() % 1000, helper_default=1, defopt=0, version="", name="main", default=1,
                 comment=0, const=1, deco=0, inner_const=1, step=0)
    try:
        mod = _load(d, state, True)
        prev = _hashes(mod, state)
        for e in edits:
            state["step"] += 1
            changed = set()
            if e == "body_constant":
                state["const"] += 1
                changed = {"main"} if not state["version"] else set()
            elif e == "default_value":
                state["default"] += 1
                changed = {"main"} if not state["version"] else set()
            elif e == "comment_in_body":
                state["comment"] += 1
                changed = {"main"} if not state["version"] else set()
            elif e == "decorator_only":
                state["deco"] += 1
            elif e == "definition_option":
                state["defopt"] += 1
            elif e == "version_added":
                state["version"] = (state["version"] or "v") + "1"
                changed = {"main"}
            elif e == "inner_body (wrapped)":
                state["inner_const"] += 1
                changed = {"wrapped"}
            elif e == "helper_default (hash_includes)":
                state["helper_default"] += 1
                changed = {"uses_helper"}
            elif e == "rename":
                state["name"] = state["name"] + "x"
                changed = {"main"}
            mod = _load(d, state, False)
            cur = _hashes(mod, state)
            for key in cur:
                if (cur[key] != prev[key]) != (key in changed):
                    return False, "after edits %r: hash of task %r %s, but it should %s" % (
                        edits[:state["step"]], key, "changed" if cur[key] != prev[key] else "did not change",
                        "change" if key in changed else "stay the same")
            prev = cur
        return True, "ok"
    finally:
        sys.path.remove(d)
        shutil.rmtree(d, ignore_errors=True)


def c17_edits(k: int) -> bool:
    """
    post: _
    """
    def body():
        n = SL()
        edits = [EDITS[choose(len(EDITS), "edit")] for _ in range(n)]
        return native(lambda: _run_edits(edits)[0])
    return guard(body, k=k)


POPS = ["partial_kw_b", "partial_kw_c", "partial_pos", "rederive_base", "use_base"]


def _run_partials(ops):
    """Sequences of PartialTask derivations: deriving from a partial never changes it; equal bound arguments <=> equal hash."""
    from redun import task as task_decorator

    def add3(a, b=0, c=0):
        return a + b + c
    t = task_decorator(name="add3", namespace="vp_c17_partials", version="1")(add3)
    base = t.partial(a=1)
    base_hash, base_kwargs, base_args = base.hash, dict(base.kwargs), tuple(base.args)
    made = [base]
    for op in ops:
        src = made[-1] if op != "rederive_base" else base
        if op == "partial_kw_b":
            made.append(src.partial(b=2))
        elif op == "partial_kw_c":
            made.append(src.partial(c=3))
        elif op == "partial_pos":
            made.append(t.partial(1).partial(5))
        elif op == "rederive_base":
            made.append(t.partial(a=1))
        if base.kwargs != base_kwargs or base.args != base_args or base.hash != base_hash or base._calc_hash() != base_hash:
            return False, "after %r the first partial changed: kwargs %r hash stale=%s" % (ops, base.kwargs, base._calc_hash() != base.hash)
    for p in made:
        for q in made:
            same_binding = (p.args == q.args and p.kwargs == q.kwargs)
            if (p.hash == q.hash) != same_binding or p._calc_hash() != p.hash:
                return False, "partials %r / %r: hashes %s although bindings %s" % (
                    (p.args, p.kwargs), (q.args, q.kwargs), "equal" if p.hash == q.hash else "differ",
                    "equal" if same_binding else "differ")
    return True, "ok"


def c17_partial_chains(k: int) -> bool:
    """
    post: _
    """
    def body():
        ops = [POPS[choose(len(POPS), "pop")] for _ in range(SL())]
        return native(lambda: _run_partials(ops)[0])
    return guard(body, k=k)


_NDIM = len(DIMS)
CONDITIONS = [
    Condition(c17_sensitivity, slices=[(v, d) for v in (0, 1) for d in range(_NDIM)], timeout=170, thorough_timeout=900,
              bounds="slice = (versioned?, dimension that differs between two tasks among %r); symbolic strings <= 2 chars, "
                     "symbolic include / option tokens" % (DIMS,)),
    Condition(c17_partial, timeout=170, bounds="PartialTask._calc_hash over symbolic inner source and bound-argument tokens"),
    Condition(c17_func_source, slices=[(n, a, i) for n in (0, 1, 2) for a in (0, 1) for i in (0, 4)], timeout=170,
              bounds="slice = (decorator lines, async?, indentation); symbolic decorator and body text"),
    Condition(c17_edits, slices=[1, 2], thorough_slices=[1, 2, 3], timeout=170, thorough_timeout=1800,
              bounds="sequences of n = slice edits from %r to a module on disk, reloaded after each edit" % (EDITS,)),
    Condition(c17_partial_chains, slices=[1, 2, 3], thorough_slices=[1, 2, 3, 4], timeout=170, thorough_timeout=900,
              bounds="sequences of n = slice partial-derivation operations from %r" % (POPS,)),
]


def replay(cond, args, extra):
    it = iter(extra["choices"])
    nx = lambda: next(it)[1]
    if cond == "c17_edits":
        edits = [EDITS[nx()] for _ in range(extra["slice"])]
        ok, detail = _run_edits(edits)
        return (not ok), detail, None
    if cond == "c17_partial_chains":
        ops = [POPS[nx()] for _ in range(extra["slice"])]
        ok, detail = _run_partials(ops)
        return (not ok), detail, None
    if cond == "c17_func_source":
        ndeco, is_async, indent = extra["slice"]
        decos = ["@" + nx() for _ in range(ndeco)]
        pad = " " * indent
        defline = pad + ("async def f():" if is_async else "def f():")
        bodyline = pad + "    return " + nx()
        text = "\n".join([pad + d for d in decos] + [defline, bodyline]) + "\n"
        real = U.inspect.getsource
        U.inspect.getsource = lambda func: text
        try:
            got = U.get_func_source(None)
        finally:
            U.inspect.getsource = real
        want = "\n".join([defline, bodyline]) + "\n"
        if got != want:
            return True, "get_func_source of\n%s\nkeeps decorator lines: %r" % (text, got), \
                ("async-def-decorators-not-trimmed" if is_async else None)
        return False, "ok"
    if cond == "c17_sensitivity":
        return _replay_sensitivity(extra, nx)
    if cond == "c17_partial":
        src1, src2 = nx(), nx()
        toks = [nx() for _ in range(4)]
        from redun import task as task_decorator

        def mk(src):
            return task_decorator(name="pf", namespace="vp_c17_r", source=src)(lambda a, k=0: 0)
        p1 = mk(src1).partial(toks[0], k=toks[2])
        p2 = mk(src2).partial(toks[1], k=toks[3])
        same = (src1 == src2 and toks[0] == toks[1] and toks[2] == toks[3])
        return ((p1.hash == p2.hash) != same), "partial hashes %s for sources %r/%r args %r" % (
            "equal" if p1.hash == p2.hash else "differ", src1, src2, toks), None
    return None, "?"


def _replay_sensitivity(extra, nx):
    """Real Task objects, real hashes."""
    from redun import task as task_decorator
    versioned, dimi = extra["slice"]
    dim = DIMS[dimi]
    name, ns, src = nx(), nx(), nx()
    ver = nx() if versioned else None
    i1, i2, ov = "i%d" % nx(), "i%d" % nx(), "o%d" % nx()

    def mk(name, ns, src, ver, incs, ovr, base):
        name = "n" + "".join("%04x" % ord(c) for c in name)  # a valid identifier that is injective in the symbolic name
        ns = "s" + "".join("%04x" % ord(c) if c != "." else "." for c in ns)
        t = task_decorator(name=name, namespace=ns.strip("."), source=src, version=ver, hash_includes=list(incs), **base)(lambda: 0)
        return t.options(**ovr) if False else T.Task(t.func, name=t.name, namespace=t.namespace, version=ver, source=src,
                                                     task_options_base=base, task_options_override=ovr, hash_includes=list(incs))
    a = mk(name, ns, src, ver, [i1, i2], {"o": ov}, {"d": 1})
    name2, ns2, src2, ver2, inc2, ovr2, base2 = name, ns, src, ver, [i1, i2], {"o": ov}, {"d": 1}
    if dim == "name":
        name2 = nx()
    elif dim == "namespace":
        ns2 = nx()
    elif dim == "source":
        src2 = nx()
    elif dim == "version":
        if not versioned:
            return False, "n/a"
        ver2 = nx()
    elif dim == "include_value":
        inc2 = [i1, "i%d" % nx()]
    elif dim == "include_order":
        inc2 = [i2, i1]
    elif dim == "override_value":
        ovr2 = {"o": "o%d" % nx()}
    elif dim == "override_added":
        ovr2 = {"o": ov, "p": "o%d" % nx()}
    elif dim == "definition_option":
        base2 = {"d": 2, "e": 3}
    b = mk(name2, ns2, src2, ver2, inc2, ovr2, base2)
    eq = a.hash == b.hash
    if dim in ("definition_option", "include_order", "nothing"):
        want = True
    elif dim in ("name", "namespace"):
        want = a.fullname == b.fullname
    elif dim == "source":
        want = (src == src2) or bool(versioned)
    elif dim == "version":
        want = ver == ver2
    elif dim == "include_value":
        want = sorted([i1, i2]) == sorted(inc2)
    elif dim == "override_value":
        want = ovr2["o"] == ov
    else:
        want = False
    return (eq != want), "tasks differing in %s: hashes %s, expected %s" % (dim, "equal" if eq else "different",
                                                                           "equal" if want else "different"), None
