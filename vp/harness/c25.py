"""C25 — Handle lineage and rollback follow the state model.

Real code: RedunBackendDb.advance_handle / rollback_handle / is_valid_handle (+ get_or_create) on the real in-memory SQLite
backend, Handle.fork / apply_call / is_valid (redun/handle.py), Scheduler._perform_rollbacks, and the validity branch of
Scheduler._get_cache -> _is_valid_value -> Handle.is_valid.  The history (which state is advanced how, which state is
rolled back, whether a re-derivation reuses the existing Python object or a fresh one) is a vector of solver choice
variables; the oracle is the lineage model of the statement.
"""
import importlib

from redun import Handle
from vp.core import SL, Condition, choose, excluded, guard, native

RS = importlib.import_module("redun.scheduler")
db = importlib.import_module("redun.backends.db")
from redun.task import CacheResult  # noqa: E402

PROPERTY = "C25"
FUNCTIONS = ["redun.backends.db.RedunBackendDb.advance_handle", "RedunBackendDb.rollback_handle", "RedunBackendDb.is_valid_handle",
             "redun.backends.db.get_or_create", "redun.handle.Handle.fork", "redun.handle.Handle.apply_call", "redun.handle.Handle.is_valid",
             "redun.scheduler.Scheduler._perform_rollbacks", "redun.scheduler.Scheduler._get_cache / _is_valid_value"]
ASSUMPTIONS = [
    "histories of <= 4 (quick) / 5 (thorough) operations on one handle name: fork with key a/b, apply a call hash c1/c2, merge two "
    "states, roll back to a state, re-derive an existing state (same or fresh Python object), roll back through the scheduler "
    "with the handle passed directly / in a list / in a dict / nested",
    "model: rolling back to a state invalidates every state reachable from it through recorded edges and nothing else; deriving a "
    "state (again) makes that state and the states it is derived from valid; unrecorded states are invalid",
    "real in-memory SQLite backend (no stub); Postgres is outside",
    "c25_workflow: whole executions (stock scheduler) of a handle-advancing task under solver-chosen code versions, cached or with "
    "run(cache=False)",
]


class Conn(Handle):
    def __init__(self, name, tag="conn"):
        self.tag = tag


OPS = ["fork_a", "fork_b", "apply_c1", "apply_c2", "merge", "rollback", "rollback_via_scheduler"]
PLACES = ["direct", "kwarg", "in_list", "in_dict", "nested"]
_STATE = {"sched": None, "n": 0}


def _sched():
    if _STATE["sched"] is None:
        import logging
        logging.disable(logging.CRITICAL)
        s = RS.Scheduler()
        s.load()
        _STATE["sched"] = s
    RS.set_current_scheduler(_STATE["sched"])
    return _STATE["sched"]


FID_INVALID = "operation-on-invalid-state-leaves-lineage-inconsistent"


def run_history(ops, pick, skip_listed=False):
    """ops: list of op names; pick(n, label) supplies the operands.  Returns (ok, detail, finding id or None).

    Listed finding: an operation applied to a state that is recorded but INVALID (advancing from it, or rolling back to it).
    With skip_listed the history is abandoned (accepted) as soon as such an operation occurs."""
    out = _run_history(ops, pick, skip_listed)
    return out


def _run_history(ops, pick, skip_listed):
    sched = _sched()
    b = sched.backend
    _STATE["n"] += 1
    name = "conn%d" % _STATE["n"]  # a fresh handle name per history
    root = Conn(name)
    states = [root]  # python objects, in creation order
    valid = {}  # model: hash -> bool (absent = never recorded)
    edges = set()
    trace = []
    touched_invalid = [False]

    def h(s):
        return s.__handle__.hash

    def is_invalid(s):
        return valid.get(h(s)) is False

    def derive(parents, child):
        existing = [s for s in states if h(s) == h(child)]
        if existing and pick(2, "reuse_object") == 1:
            child = existing[0]  # the very same Python object is advanced again
        b.advance_handle(parents, child)
        valid[h(child)] = True
        for p in parents:
            valid[h(p)] = True
            edges.add((h(p), h(child)))
        if not existing:
            states.append(child)

    def descendants(x):
        out, stack = set(), [x]
        while stack:
            n = stack.pop()
            for (p, c) in edges:
                if p == n and c not in out:
                    out.add(c)
                    stack.append(c)
        return out

    for op in ops:
        s = states[pick(len(states), "state")]
        if is_invalid(s):
            touched_invalid[0] = True
            if skip_listed:
                return True, "history applies an operation to an invalid state (listed finding assumed away)", None
        if op in ("fork_a", "fork_b"):
            trace.append("%s(%d)" % (op, states.index(s)))
            derive([s], s.fork(op[-1]))
        elif op in ("apply_c1", "apply_c2"):
            trace.append("%s(%d)" % (op, states.index(s)))
            derive([s], s.apply_call("call-" + op[-2:]))
        elif op == "merge":
            t = states[pick(len(states), "state2")]
            if is_invalid(t):
                touched_invalid[0] = True
                if skip_listed:
                    return True, "history applies an operation to an invalid state (listed finding assumed away)", None
            trace.append("merge(%d,%d)" % (states.index(s), states.index(t)))
            child = s.apply_call("merge-%s" % h(t)[:6])
            derive([s, t], child)
        else:
            if h(s) not in valid:
                continue  # rolling back to a state that was never recorded has nothing to invalidate
            if op == "rollback":
                trace.append("rollback(%d)" % states.index(s))
                b.rollback_handle(s)
            else:
                place = PLACES[pick(len(PLACES), "place")]
                trace.append("rollback_via_scheduler(%d, %s)" % (states.index(s), place))
                args, kwargs = {"direct": ((s,), {}), "kwarg": ((), {"h": s}), "in_list": (([1, s],), {}),
                                "in_dict": ((), {"opts": {"conn": s}}), "nested": (({"a": [(s,)]},), {})}[place]
                sched._perform_rollbacks(args, kwargs)
            for d in descendants(h(s)):
                valid[d] = False
        for st in states:
            got = bool(b.is_valid_handle(st))
            want = valid.get(h(st), False)
            if got != want:
                return False, "after %s: state %d (%s) is %s, the lineage model says %s" % (
                    " ; ".join(trace), states.index(st), h(st)[:8], "valid" if got else "invalid", "valid" if want else "invalid"), (
                    FID_INVALID if touched_invalid[0] else None)
    # a cached result containing a handle state is replayed only if that state is valid
    from vp.harness.schedprog import leaf
    for st in states:
        want = valid.get(h(st), False)
        result = {"out": [st]}
        saved = sched.backend.check_cache
        sched.backend.check_cache = lambda *a, **k: (result, None, CacheResult.SINGLE)
        try:
            job = RS.Job(leaf, leaf("k", 1), execution=RS.Execution("kernel"))
            job.eval_hash, job.args_hash = "e", "a"
            got, cached, _ = sched._get_cache(job)
        finally:
            sched.backend.check_cache = saved
        if cached != want:
            return False, "after %s: a cached result containing state %d (%s per the model) is %s" % (
                " ; ".join(trace), states.index(st), "valid" if want else "invalid", "replayed" if cached else "treated as a miss"), (
                FID_INVALID if touched_invalid[0] else None)
    return True, "ok", None


def c25_history(k: int) -> bool:
    """
    post: _
    """
    def body():
        n, first = SL()
        ops = [OPS[f] for f in first] + [OPS[choose(len(OPS), "op")] for _ in range(n - len(first))]
        skip = excluded(FID_INVALID)
        return native(lambda: run_history(ops, choose, skip)[0])
    return guard(body, k=k)


def c25_kernel(k: int) -> bool:
    """
    post: _
    """
    def body():
        from vp.core import assume
        from vp.harness import dbkern as K
        pi, pc, pb = K.sym_pickers()
        case = K.rb_case(pc, pb, SL())
        assume(K.rb_invariant(case))
        assume(case["valid"][case["target"]])
        return K.rb_run_fake(case) == K.rb_expected(case)
    return guard(body, k=k)


def c25_workflow(k: int) -> bool:
    """
    post: _
    """
    def body():
        from vp.harness import c04 as W
        n = SL()
        place = W.HPLACES[choose(len(W.HPLACES), "place")]
        versions = ["v1"] + [["v1", "v2"][choose(2, "version")] for _ in range(n - 1)]
        nocache = [choose(2, "nocache") == 1 for _ in range(n)]
        return native(lambda: W.handle_case(place, versions, nocache)[0])
    return guard(body, k=k)


_NO = len(OPS)
CONDITIONS = [
    Condition(c25_workflow, slices=[3], thorough_slices=[3, 4], timeout=250, thorough_timeout=1500,
              bounds="slice = number of successive executions of a workflow whose task advances a Handle; per execution the task's code "
                     "version (v1/v2) and whether the execution runs with cache=False are solver-chosen, as is the position in which "
                     "the Handle reaches the task (direct, keyword, list, dict, nested); the task must execute exactly when it runs "
                     "uncached or the previous execution on that incoming handle was by the other version"),
    Condition(c25_kernel, slices=[0, 1, 2], timeout=250, thorough_timeout=900,
              bounds="one rollback step of the real rollback_handle / is_valid_handle on the S4 session from an ARBITRARY handle graph "
                     "of 4 states (any DAG edges among same-name states, symbolic validity bits, states of another handle name "
                     "allowed) satisfying 'a state derived from an invalid state is invalid'; slice = state rolled back to (valid); "
                     "afterwards exactly its strict descendants became invalid, nothing else changed"),
    Condition(c25_history, slices=[(3, (a,)) for a in range(5)] + [(4, p) for p in ((0, 2, 5), (2, 2, 5), (2, 0, 6), (0, 4, 5), (2, 5, 2))],
              thorough_slices=[(4, (a, b)) for a in range(5) for b in range(_NO)] + [(5, (a, b, c)) for a in (0, 2) for b in (0, 2, 4) for c in (5, 6)],
              timeout=250, thorough_timeout=2400,
              bounds="slice = (operations, fixed first operations); later operations %r and their operands (state index, second "
                     "state, object reuse, argument placement) chosen by the solver" % (OPS,)),
]


def self_test(seed):
    from vp.harness import dbkern as K
    return {"S4_vs_sqlite_agreeing_cases": K.differential("rb", seed)}


def warmup(cond):
    if cond == "c25_kernel":
        from vp.harness import dbkern as K
        K.warm("rb")


def replay(cond, args, extra):
    if cond == "c25_workflow":
        from vp.harness import c04 as W
        ch = [c[1] for c in extra["choices"]]
        n = extra["slice"]
        ok, detail = W.handle_case(W.HPLACES[ch[0]], ["v1"] + [["v1", "v2"][c] for c in ch[1:n]], [c == 1 for c in ch[n:2 * n]])
        return (not ok), detail, None
    if cond == "c25_kernel":
        from vp.harness import dbkern as K
        pi, pc, pb = K.replay_pickers(extra["choices"])
        case = K.rb_case(pc, pb, extra["slice"])
        if not (K.rb_invariant(case) and case["valid"][case["target"]]):
            return False, "pre-state outside the invariant", None
        got, want = K.rb_run_real(case), K.rb_expected(case)
        return got != want, "rollback on the real SQLite backend from %r left validity %r, the lineage model says %r" % (case, got, want), None
    items = list(extra["choices"])
    n, first = extra["slice"]
    nops = n - len(first)
    # the op choices are interleaved with operand choices in creation order: ops first (they are chosen up front)
    ops = [OPS[f] for f in first] + [OPS[c[1]] for c in items[:nops]]
    it = iter(items[nops:])
    ok, detail, fid = run_history(ops, lambda m, label: min(next(it, (None, 0))[1], m - 1))
    return (not ok), detail, fid
