"""C27 — Task options follow the documented precedence.

Real code: redun.scheduler.Job.__init__ (export-name accumulation) / get_raw_options / get_options / get_option /
get_export_options, redun.task.Task.get_task_options / options / export_options, TaskExpression construction in
Task.__call__; and, for expression-valued options, the option evaluation in Scheduler._evaluate_apply (real run).
Which levels carry the option, which jobs export it and how the chains are interleaved are solver choice variables.
"""
import importlib

from redun import task as task_decorator
from vp.core import SL, Condition, choose, guard, native

S = importlib.import_module("redun.scheduler")
E = importlib.import_module("redun.expression")

PROPERTY = "C27"
FUNCTIONS = ["redun.scheduler.Job.__init__", "redun.scheduler.Job.get_raw_options", "redun.scheduler.Job.get_options",
             "redun.scheduler.Job.get_option", "redun.scheduler.Job.get_export_options", "redun.task.Task.get_task_options",
             "redun.task.Task.options", "redun.task.Task.export_options", "redun.task.Task.__call__",
             "redun.scheduler.Scheduler._evaluate_apply (option evaluation)"]
ASSUMPTIONS = [
    "one option key 'k' (plus an unrelated key 'other' that must never be disturbed), job chains of depth <= 3, two chains "
    "built one after the other from the same registered tasks",
    "expression-valued options: one option whose value is plain / an expression / an expression nested in a dict or list, "
    "optionally next to a second top-level expression-valued option, evaluated in a real Scheduler.run (in-memory backend)",
]

redun_namespace = "vp_c27"
_TASKS = {}


def _task(level, has_def):
    key = (level, has_def)
    if key not in _TASKS:
        def f(x=0):
            return x
        opts = {"other": "other-def-%d" % level}
        if has_def:
            opts["k"] = "def-%d" % level
        _TASKS[key] = task_decorator(name="t%d_%d" % key, namespace=redun_namespace, version="1", **opts)(f)
    return _TASKS[key]


def _build_chain(spec, tag):
    """spec: per level (has_def, call, export, imposed), each 0/1.  Returns the list of real Jobs and per-level facts."""
    execution = S.Execution("e" + tag)
    parent = None
    jobs = []
    for level, (has_def, call, export, imposed) in enumerate(spec):
        t = _task(level, has_def)
        tt = t
        if call:
            tt = tt.options(k="call-%s-%d" % (tag, level))
        if export:
            tt = tt.export_options(k="exp-%s-%d" % (tag, level))
        expr = tt(level)
        opts = {"k": "imposed-%s-%d" % (tag, level)} if imposed else None
        job = S.Job(t, expr, id="j%s%d" % (tag, level), parent_job=parent, execution=execution, options=opts)
        jobs.append(job)
        parent = job
    return jobs


def _model(spec, tag):
    """The documented precedence: definition < exported by an ancestor < call time < scheduler-imposed.
    Returns per level (effective value of k or None, exported names)."""
    out = []
    parent_eff, parent_exports = None, set()
    for level, (has_def, call, export, imposed) in enumerate(spec):
        exports = set(parent_exports)
        if export:
            exports.add("k")
        val = None
        if has_def:
            val = "def-%d" % level
        if "k" in parent_exports and parent_eff is not None:
            val = parent_eff
        if call:
            val = "call-%s-%d" % (tag, level)
        if export:  # export_options(k=v) is a call-time override that is also exported
            val = "exp-%s-%d" % (tag, level)
        if imposed:
            val = "imposed-%s-%d" % (tag, level)
        out.append((val, exports))
        parent_eff, parent_exports = val, exports
    return out


def _check_chain(spec, tag, order):
    jobs = _build_chain(spec, tag)
    want = _model(spec, tag)
    idx = list(range(len(jobs))) if order == 0 else list(reversed(range(len(jobs))))
    for i in idx:
        job = jobs[i]
        opts = job.get_options()
        val, exports = want[i]
        if opts.get("k") != val or job.get_option("k") != val:
            return False, "level %d of %r: k=%r, expected %r" % (i, spec, opts.get("k"), val)
        if opts.get("other") != "other-def-%d" % i:
            return False, "level %d: unrelated option disturbed: %r" % (i, opts.get("other"))
        if ("k" in job.export_options) != ("k" in exports):
            return False, "level %d of %r: exported names %r, expected %r" % (i, spec, job.export_options, exports)
        exp = job.get_export_options()
        if ("k" in exp) != ("k" in exports and val is not None) or ("k" in exp and exp["k"] != val):
            return False, "level %d: export options %r" % (i, exp)
        if set(exp) - {"k", "cache_scope"}:
            return False, "level %d: exports more than asked: %r" % (i, exp)
    # the registered task definitions are never changed by building jobs
    for level, (has_def, _, _, _) in enumerate(spec):
        t = _task(level, has_def)
        if t._export_options or t._task_options_override:
            return False, "registered task %s mutated: exports %r overrides %r" % (t.fullname, t._export_options, t._task_options_override)
    return True, "ok"


def _pick_spec(depth):
    return [(choose(2, "has_def"), choose(2, "call"), choose(2, "export"), choose(2, "imposed")) for _ in range(depth)]


def c27_precedence(k: int) -> bool:
    """
    post: _
    """
    def body():
        depth, first = SL()
        spec = ([tuple(first)] if first is not None else []) + _pick_spec(depth - (1 if first is not None else 0))
        order = choose(2, "order")
        return native(lambda: _check_chain(spec, "a", order)[0])
    return guard(body, k=k)


def c27_two_chains(k: int) -> bool:
    """
    post: _
    """
    def body():
        # a second job tree built afterwards from the same registered tasks is unaffected by the first one
        depth = SL()
        spec1 = _pick_spec(depth)
        spec2 = [(spec1[i][0], choose(2, "call"), choose(2, "export"), 0) for i in range(depth)]

        def run():
            return _check_chain(spec1, "a", 0)[0] and _check_chain(spec2, "b", 0)[0]
        return native(run)
    return guard(body, k=k)


# ---------------------------------------------------------------------------------------------
# option values that are expressions are evaluated before use

SHAPES = ["plain", "expr", "in_dict", "in_list", "in_nested"]


def _contains_expr(v):
    from redun.utils import iter_nested_value
    return any(isinstance(x, E.Expression) for x in iter_nested_value(v))


def _expr_tasks():
    if "expr" not in _TASKS:
        def value(x):
            return x * 10

        def leaf(info=S.JobInfo()):
            o = info.options
            return [_contains_expr(o.get("myopt")), _contains_expr(o.get("second")), _plain(o.get("myopt")), _plain(o.get("second"))]

        def mid(shape, second, export):
            v = _TASKS["value"]
            myopt = {"plain": 5, "expr": v(1), "in_dict": {"m": v(2), "n": 1}, "in_list": [v(3), 4],
                     "in_nested": {"a": [1, {"b": v(4)}]}}[shape]
            sec = {"none": None, "plain": 7, "expr": v(5)}[second]
            opts = {"myopt": myopt}
            if sec is not None:
                opts["second"] = sec
            lf = _TASKS["leaf"]
            if export:
                return _TASKS["inner"].export_options(**opts)()
            return lf.options(**opts)()

        def inner():
            return _TASKS["leaf"]()
        _TASKS["value"] = task_decorator(name="value", namespace=redun_namespace, version="1")(value)
        _TASKS["leaf"] = task_decorator(name="leaf", namespace=redun_namespace, version="1", cache=False)(leaf)
        _TASKS["inner"] = task_decorator(name="inner", namespace=redun_namespace, version="1", cache=False)(inner)
        _TASKS["expr"] = task_decorator(name="mid", namespace=redun_namespace, version="1", cache=False)(mid)
    return _TASKS["expr"]


def _plain(v):
    from redun.utils import map_nested_value
    if v is None:
        return None
    return map_nested_value(lambda x: x, v)


EXPECT = {"plain": 5, "expr": 10, "in_dict": {"m": 20, "n": 1}, "in_list": [30, 4], "in_nested": {"a": [1, {"b": 40}]}}
SECOND = {"none": None, "plain": 7, "expr": 50}


def _run_expr(shape, second, export):
    import logging
    from redun import Scheduler
    logging.disable(logging.CRITICAL)
    s = Scheduler()
    s.load()
    has1, has2, v1, v2 = s.run(_expr_tasks()(shape, second, export))
    if has1 or has2:
        return False, "job ran with an unevaluated expression inside its options (myopt=%r second=%r)" % (v1, v2)
    if v1 != EXPECT[shape] or v2 != SECOND[second]:
        return False, "options seen by the job: myopt=%r second=%r, expected %r %r" % (v1, v2, EXPECT[shape], SECOND[second])
    return True, "ok"


def c27_expr_options(k: int) -> bool:
    """
    post: _
    """
    def body():
        shape = SHAPES[choose(len(SHAPES), "shape")]
        second = ["none", "plain", "expr"][choose(3, "second")]
        export = choose(2, "export")
        return native(lambda: _run_expr(shape, second, export)[0])
    return guard(body, k=k)


CONDITIONS = [
    Condition(c27_precedence, slices=[(1, None), (2, None), (3, (0, 0, 1, 0)), (3, (1, 0, 1, 0)), (3, (1, 1, 0, 1))],
              thorough_slices=[(1, None), (2, None)] + [(3, (a, b, c, d)) for a in (0, 1) for b in (0, 1) for c in (0, 1) for d in (0, 1)],
              timeout=170, thorough_timeout=1200,
              bounds="slice = (chain depth, fixed spec of the root level or None); per level the option is present or not at definition / call time / export / "
                     "scheduler-imposed (2^4 per level, all combinations); options read leaf-first or root-first"),
    Condition(c27_two_chains, slices=[2], thorough_slices=[2, 3], timeout=170, thorough_timeout=1200,
              bounds="two chains of depth = slice built one after the other from the same registered tasks"),
    Condition(c27_expr_options, timeout=170, thorough_timeout=600,
              bounds="option value shape in %r x second option none/plain/expression x given by options()/export_options(); real "
                     "Scheduler.run" % (SHAPES,)),
]


def replay(cond, args, extra):
    it = iter(extra["choices"])
    nx = lambda: next(it)[1]
    if cond == "c27_precedence":
        depth, first = extra["slice"]
        spec = ([tuple(first)] if first is not None else []) + [(nx(), nx(), nx(), nx()) for _ in range(depth - (1 if first is not None else 0))]
        ok, detail = _check_chain(spec, "a", nx())
        return (not ok), detail, None
    if cond == "c27_two_chains":
        d = extra["slice"]
        spec1 = [(nx(), nx(), nx(), nx()) for _ in range(d)]
        spec2 = [(spec1[i][0], nx(), nx(), 0) for i in range(d)]
        ok, detail = _check_chain(spec1, "a", 0)
        if ok:
            ok, detail = _check_chain(spec2, "b", 0)
            detail = "after a first chain %r, second chain: %s" % (spec1, detail)
        return (not ok), detail, None
    shape, second, export = SHAPES[nx()], ["none", "plain", "expr"][nx()], nx()
    ok, detail = _run_expr(shape, second, export)
    return (not ok), "myopt shape %s, second %s, export=%d: %s" % (shape, second, export, detail), None
