"""C05 — Results are never shared between calls with different contexts.

Real code: the real Scheduler (stock thread executor) and SQLite backend - Scheduler._exec_job_main_thread (context hash),
_check_pending_job ((eval_hash, context_hash) key), _evaluate_apply (_pending_expr, JobEnv for default arguments),
RedunBackendDb.check_cache (CSE and ULTIMATE branches) and _get_call_node (context filter), record_call_node_context.  A
history of calls of the same task with the same arguments under solver-chosen contexts - in parallel in one execution, one
after the other in one execution, or in successive executions - must give every call the value of its own context.
"""
import importlib
import os

from redun import task
from redun.context import get_context
from redun.functools import seq
from vp.core import SL, Condition, assume, choose, excluded, guard, native

RS = importlib.import_module("redun.scheduler")

PROPERTY = "C05"
FUNCTIONS = ["redun.scheduler.Scheduler._exec_job_main_thread (context_hash)", "Scheduler._check_pending_job", "Scheduler._evaluate_apply",
             "redun.scheduler.Job.get_context", "redun.backends.db.RedunBackendDb.check_cache", "RedunBackendDb._get_call_node",
             "RedunBackendDb.record_call_node_context", "redun.context.get_context"]
ASSUMPTIONS = [
    "histories of <= 3 calls; contexts from {none, {'x':'A'}, {'x':'B'}}; three ways a task can depend on the context: a nested child "
    "task reads it, a defaulted argument get_context(...) reads it, a defaulted argument that is itself a task call reads it",
    "arrangements: parallel list in one execution, seq (one after the other) in one execution, successive executions on one "
    "backend; the context-reading task with check_valid full or shallow; executions run with the backend cache or with "
    "run(cache=False) (every job CSE-scoped)",
    "stock thread executor, real in-memory SQLite backend (no stub); the order in which parallel calls complete is not controlled",
    "c05_kernel: S4 FakeSession (the real clause objects evaluated over symbolic rows); get_call_cache always finds the result, "
    "get_eval_cache never; at most one context tag per call node",
]

NS = "vp_c05"
CTX = [None, "A", "B"]


def _define(shallow):
    opts = {"check_valid": "shallow"} if shallow else {}
    sfx = "_s" if shallow else "_f"

    def reads(salt):
        return get_context("x", "none")
    reads_t = task(name="reads" + sfx, namespace=NS, version="1", **opts)(reads)

    def nested(salt, i):
        return reads_t(salt)
    nested_t = task(name="nested" + sfx, namespace=NS, version="1")(nested)

    def viadefault(salt, c=get_context("x", "none")):
        return c
    viadefault_t = task(name="viadefault" + sfx, namespace=NS, version="1", **opts)(viadefault)

    def prep(salt):
        # same task, same arguments under every context; depends on the context only through its child
        return reads_t(salt)
    prep_t = task(name="prep" + sfx, namespace=NS, version="1")(prep)

    def step(salt, i, prepared=prep_t("fixed")):
        return prepared
    step_t = task(name="step" + sfx, namespace=NS, version="1")(step)

    tasks = {"nested": nested_t, "viadefault": viadefault_t, "step": step_t}

    def build(salt, calls):
        out = []
        for i, (kind, ctx) in enumerate(calls):
            t = tasks[kind]
            if ctx is not None:
                t = t.update_context({"x": ctx})
            out.append(t(salt) if kind == "viadefault" else t(salt, i))
        return out

    def run_seq(salt, calls):
        return seq(build(salt, calls))  # one after the other
    seq_t = task(name="run_seq" + sfx, namespace=NS, version="1", cache=False)(run_seq)

    def run_par(salt, calls):
        return build(salt, calls)
    par_t = task(name="run_par" + sfx, namespace=NS, version="1", cache=False)(run_par)
    return {"nested": nested_t, "viadefault": viadefault_t, "step": step_t, "seq": seq_t, "par": par_t, "build": build}


_T = {}
KINDS = ["nested", "viadefault", "step"]
ARRANGE = ["parallel", "seq", "executions"]
_N = [0]


def _tasks(shallow):
    if shallow not in _T:
        _T[shallow] = _define(shallow)
    return _T[shallow]


def _is_listed_class(calls, arrange, shallow):
    """Listed finding: a context-free call evaluated after a *finished* context-bearing call of the same task and arguments
    (same execution: backend CSE; later execution: ultimate reduction, i.e. the context-reading task is check_valid=shallow)."""
    if arrange == "parallel":
        return False
    for j, (kj, cj) in enumerate(calls):
        if kj in ("nested", "step") and cj is None and any(ki == kj and ci is not None for (ki, ci) in calls[:j]):
            if arrange == "seq" or shallow:
                return True
    return False


def run_history(calls, arrange, shallow, base_ctx=False, nocache=False):
    """calls: list of (kind, ctx).  base_ctx: the execution itself runs under a non-empty context.  Returns (ok, detail)."""
    import logging
    logging.disable(logging.CRITICAL)
    T = _tasks(shallow)
    _N[0] += 1
    salt = "c%d_%d" % (os.getpid(), _N[0])
    s = RS.Scheduler()
    s.load()

    def expr(i, kind, ctx):
        t = T[kind]
        if ctx is not None:
            t = t.update_context({"x": ctx})
        if kind == "viadefault":
            return t(salt)
        return t(salt, i)
    want = [c if c is not None else "none" for (_, c) in calls]
    kw = {"context": {"base": 1}} if base_ctx else {}
    if nocache:
        kw["cache"] = False  # every job is CSE-scoped: results are shared within the execution only
    try:
        if arrange == "executions":
            got = [s.run(expr(i, k, c), **kw) for i, (k, c) in enumerate(calls)]
        else:
            wrapper = T["seq" if arrange == "seq" else "par"]
            got = s.run(wrapper(salt, [list(c) for c in calls]), **kw)
    except Exception as e:
        return False, "calls %r (%s, shallow=%s) raised %s: %s" % (calls, arrange, shallow, type(e).__name__, e)
    if list(got) != want:
        return False, "calls %r arranged as %s (context-reading task check_valid=%s): results %r, each call's own context gives %r" % (
            calls, arrange, "shallow" if shallow else "full", list(got), want)
    return True, "ok"


def c05_history(k: int) -> bool:
    """
    post: _
    """
    def body():
        n, arrange_i, shallow, kind_mode, base_ctx, nocache = (tuple(SL()) + (0,))[:6]
        arrange = ARRANGE[arrange_i]
        calls = []
        for i in range(n):
            kind = KINDS[kind_mode] if kind_mode is not None else KINDS[choose(len(KINDS), "kind")]
            calls.append((kind, CTX[choose(len(CTX), "ctx")]))
        if excluded("context-free-call-reuses-context-result") and _is_listed_class(calls, arrange, bool(shallow)):
            return True
        return native(lambda: run_history(calls, arrange, bool(shallow), bool(base_ctx), bool(nocache))[0])
    return guard(body, k=k)


def c05_kernel(k: int) -> bool:
    """
    post: _
    """
    def body():
        from vp.harness import dbkern as K
        pi, pc, pb = K.sym_pickers()
        nn, nj, nt = SL()
        case = K.ctx_case(pi, K.fixed_pick(pc, {"n_nodes": nn, "n_jobs": nj, "n_tags": nt}), pb)
        # one context tag per call node at most (record_call_node_context writes exactly one)
        for n in case["nodes"]:
            assume(sum(1 for t in case["tags"] if t["entity_id"] == n["call_hash"] and t["key"] == K.CTX) <= 1)
        ok, detail, listed = K.ctx_check(case, K.ctx_run_fake)
        if not ok and listed and excluded("context-free-call-reuses-context-result"):
            return True
        return ok
    return guard(body, k=k)


_Q = [(2, a, s, None, 0) for a in range(3) for s in (0, 1)] + [(3, a, s, km, 0) for a in (1, 2) for s in (1,) for km in (0, 1, 2)] \
    + [(3, 0, 0, 0, 0)] + [(2, a, s, None, 1) for a in range(3) for s in (0, 1)] + [(2, a, 0, None, 0, 1) for a in (0, 1)] + [(3, 1, 0, 0, 0, 1)]
_TT = [(3, a, s, None, b) for a in range(3) for s in (0, 1) for b in (0, 1)] + [(3, a, s, None, 0, 1) for a in (0, 1) for s in (0, 1)]
_KT = [(a, b, c) for a in (0, 1) for b in (0, 1, 2) for c in (0, 1, 2)]
_KQ = [(a, b, c) for (a, b, c) in _KT if a + b + c <= 3]
CONDITIONS = [
    Condition(c05_kernel, slices=_KQ, thorough_slices=_KT, timeout=250, thorough_timeout=1800,
              bounds="slice = (call nodes - 1, jobs, tags); real check_cache / _get_call_node on the S4 session: 1-2 call nodes, 0-2 jobs, 0-2 tags; task / argument / "
                     "execution / context tokens, timestamps and start times are unbounded symbolic ints; cache scope CSE/BACKEND, "
                     "check_valid full/shallow; a CSE or ULTIMATE hit must carry exactly the requested context"),
    Condition(c05_history, slices=_Q, thorough_slices=_TT, timeout=280, thorough_timeout=2400,
              bounds="slice = (calls, arrangement index into %r, context-reading task shallow?, fixed dependency kind or None, execution "
                     "itself under a non-empty context?); "
                     "contexts from none/A/B and (if not fixed) the dependency kind from %r are solver-chosen per call" % (ARRANGE, KINDS)),
]


def self_test(seed):
    from vp.harness import dbkern as K
    return {"S4_vs_sqlite_agreeing_cases": K.differential("ctx", seed)}


def warmup(cond):
    if cond == "c05_kernel":
        from vp.harness import dbkern as K
        K.warm("ctx")


def replay(cond, args, extra):
    if cond == "c05_kernel":
        from vp.harness import dbkern as K
        pi, pc, pb = K.replay_pickers(extra["choices"])
        nn, nj, nt = extra["slice"]
        case = K.ctx_case(pi, K.fixed_pick(pc, {"n_nodes": nn, "n_jobs": nj, "n_tags": nt}), pb)
        ok, detail, listed = K.ctx_check(case, K.ctx_run_real)
        return (not ok), detail + " (rows written to the real SQLite backend: %r)" % ({k: case[k] for k in ("nodes", "jobs", "tags")},), (
            "context-free-call-reuses-context-result" if (not ok and listed) else None)
    n, arrange_i, shallow, kind_mode, base_ctx, nocache = (tuple(extra["slice"]) + (0,))[:6]
    it = iter(extra["choices"])
    calls = []
    for i in range(n):
        kind = KINDS[kind_mode] if kind_mode is not None else KINDS[next(it)[1]]
        calls.append((kind, CTX[next(it)[1]]))
    ok, detail = run_history(calls, ARRANGE[arrange_i], bool(shallow), bool(base_ctx), bool(nocache))
    if nocache:
        detail += " [run(cache=False)]"
    fid = None
    if not ok and _is_listed_class(calls, ARRANGE[arrange_i], bool(shallow)):
        fid = "context-free-call-reuses-context-result"
    return (not ok), detail, fid
