"""Workflow templates and the case runner shared by the SchedLab harnesses (C06, C07, C08, C09, C12)."""
import importlib
import logging

from redun import task
from redun.scheduler import catch
from vp.stubs.schedlab import Lab

RS = importlib.import_module("redun.scheduler")
NS = "vp_lab"
_STATE = {"backend": None, "n": 0}


class LeafError(ValueError):
    pass


@task(name="leaf", namespace=NS, version="1")
def leaf(salt, x, fail=False):
    if fail:
        raise LeafError("leaf %s failed" % (x,))
    return ("leaf", x)


@task(name="leaf_nocache", namespace=NS, version="1", cache_scope="NONE")
def leaf_nocache(salt, x, fail=False):
    return ("leaf", x)


@task(name="mid", namespace=NS, version="1")
def mid(salt, i, x, fail=False, nocache=False):
    if nocache:
        return leaf_nocache(salt, x, fail)
    return leaf(salt, x, fail)


@task(name="recover", namespace=NS, version="1", cache=False)  # (no salt argument: never served from an earlier run)
def recover(error):
    return ("recovered", str(error))


@task(name="main", namespace=NS, version="1")
def main(salt, spec):
    out = []
    for i, (x, fail, caught, nocache) in enumerate(spec):
        e = mid(salt, i, x, fail, nocache)
        if caught:
            e = catch(e, LeafError, recover)
        out.append(e)
    return out


@task(name="bad_executor", namespace=NS, version="1", executor="no-such-executor")
def bad_executor(salt, x):
    return x


@task(name="main_bad", namespace=NS, version="1")
def main_bad(salt, spec):
    out = [catch(bad_executor(salt, 0), Exception, recover)]
    for i, (x, fail, caught, nocache) in enumerate(spec):
        e = mid(salt, i, x, fail, nocache)
        if caught:
            e = catch(e, LeafError, recover)
        out.append(e)
    return out


def shared_backend():
    if _STATE["backend"] is None:
        logging.disable(logging.CRITICAL)
        s = RS.Scheduler()
        s.load()
        _STATE["backend"] = s.backend
    return _STATE["backend"]


def new_salt():
    _STATE["n"] += 1
    import os
    return "s%d_%d" % (os.getpid(), _STATE["n"])


def set_limits(leaf_limits, mid_limits):
    """Definition-time options (neither hashed nor pickled): the demand of each task."""
    for t, lim in ((leaf, leaf_limits), (leaf_nocache, leaf_limits), (mid, mid_limits), (bad_executor, leaf_limits)):
        if lim is None:
            t._task_options_base.pop("limits", None)
        else:
            t._task_options_base["limits"] = lim


def expected(spec, with_bad=False):
    """What the reduction semantics prescribe for the template: value, or the first uncaught failure in evaluation order
    is *an* admissible error (any uncaught failing leaf may be the one reported, depending on completion order)."""
    vals = []
    errors = []
    for (x, fail, caught, nocache) in spec:
        if fail and not caught:
            errors.append("leaf %s failed" % (x,))
            vals.append(None)
        elif fail:
            vals.append(("recovered", "leaf %s failed" % (x,)))
        else:
            vals.append(("leaf", x))
    if with_bad:
        vals = [("recovered", 'Unknown executor "no-such-executor"')] + vals
    return vals, errors


def run_case(spec, pick, limits, leaf_limits, mid_limits=None, early=False, symbolic=False, with_bad=False, salt=None,
             resources=("r",), backend="shared", fifo_tasks=("mid", "main", "main_bad", "recover")):
    """One lab run of the template.  Returns (lab, outcome, salt)."""
    set_limits(leaf_limits, mid_limits)
    lab = Lab(pick, limits=limits, early=early, backend=(shared_backend() if backend == "shared" else backend),
              symbolic=symbolic, resources=resources, fifo_tasks=() if early else fifo_tasks)
    salt = salt or new_salt()
    prog = main_bad if with_bad else main
    outcome = lab.run(prog(salt, list(spec)))
    return lab, outcome, salt
