"""Workflow templates and the case runner shared by the SchedLab harnesses (C06, C07, C08, C09, C12)."""
import importlib
import logging

from redun import task
from redun.scheduler import catch, catch_all
from vp.stubs.schedlab import Lab

RS = importlib.import_module("redun.scheduler")
NS = "vp_lab"
_STATE = {"backend": None, "n": 0}


class LeafError(ValueError):
    pass


class UnpicklableError(LeafError):
    """Carries something pickle refuses (a lock): recording it needs the scheduler's fallback."""

    def __init__(self, msg):
        super().__init__(msg)
        import threading
        self.lock = threading.Lock()


# branch = (x, fail, caught, mode); mode: 0 plain, 1 leaf without caching (cache_scope NONE), 2 shared mid job (the same
# non-leaf call from several branches), 3 leaf that demands the whole limit ("hog"), 4 failing with an unpicklable error,
# 5 the same non-leaf call reached through a separate wrapper job per branch
@task(name="leaf", namespace=NS, version="1")
def leaf(salt, x, fail=False):
    if fail == 2:
        raise UnpicklableError("leaf %s failed" % (x,))
    if fail:
        raise LeafError("leaf %s failed" % (x,))
    return _result(x)


FLAGS = {"atomic_results": False}


def _result(x):
    # normally a small container; with atomic_results an int (pickle never memoises ints, so sharing one result object
    # between deduplicated calls cannot change the pickle of a value that contains it several times)
    return 1000 + x if FLAGS["atomic_results"] else ("leaf", x)


@task(name="leaf_nocache", namespace=NS, version="1", cache_scope="NONE")
def leaf_nocache(salt, x, fail=False):
    return _result(x)


@task(name="leaf_hog", namespace=NS, version="1")
def leaf_hog(salt, x, fail=False):
    return _result(x)


@task(name="mid", namespace=NS, version="1")
def mid(salt, i, x, fail=False, mode=0):
    if mode == 1:
        return leaf_nocache(salt, x, fail)
    if mode == 3:
        return leaf_hog(salt, x, fail)
    return leaf(salt, x, 2 if (fail and mode == 4) else fail)


@task(name="recover", namespace=NS, version="1", cache=False)  # (no salt argument: never served from an earlier run)
def recover(error):
    return ("recovered", str(error))


@task(name="outer", namespace=NS, version="1")
def outer(salt, i, x, fail=False):
    # a distinct call per branch that returns the *same* non-leaf call mid(salt, 0, x): duplicates of a non-leaf job
    # reached through different expressions / parents
    return mid(salt, 0, x, fail, 0)


def _branch(salt, i, x, fail, caught, mode):
    if mode == 5:
        e = outer(salt, i, x, fail)
    else:
        e = mid(salt, 0 if mode == 2 else i, x, fail, mode)
    if caught:
        e = catch(e, LeafError, recover)
    return e


@task(name="main", namespace=NS, version="1")
def main(salt, spec):
    return [_branch(salt, i, x, fail, caught, mode) for i, (x, fail, caught, mode) in enumerate(spec)]


@task(name="bad_executor", namespace=NS, version="1", executor="no-such-executor")
def bad_executor(salt, x):
    return x


@task(name="main_bad", namespace=NS, version="1")
def main_bad(salt, spec):
    out = [catch(bad_executor(salt, 0), Exception, recover)]
    return out + [_branch(salt, i, x, fail, caught, mode) for i, (x, fail, caught, mode) in enumerate(spec)]


@task(name="recover_all", namespace=NS, version="1", cache=False)
def recover_all(values):
    return ["error:" + str(v) if isinstance(v, Exception) else v for v in values]


@task(name="main_all", namespace=NS, version="1")
def main_all(salt, spec):
    # all branches under one catch_all: failures are tolerated and processed only when every branch has settled
    return catch_all([mid(salt, 0 if mode == 2 else i, x, fail, mode) for i, (x, fail, caught, mode) in enumerate(spec)],
                     LeafError, recover_all)


def shared_backend():
    if _STATE["backend"] is None:
        logging.disable(logging.CRITICAL)
        s = RS.Scheduler()
        s.load()
        _STATE["backend"] = s.backend
    return _STATE["backend"]


def new_salt():
    _STATE["n"] += 1
    import os
    return "s%d_%d" % (os.getpid(), _STATE["n"])


def set_limits(leaf_limits, mid_limits, hog_limits=None):
    """Definition-time options (neither hashed nor pickled): the demand of each task."""
    for t, lim in ((leaf, leaf_limits), (leaf_nocache, leaf_limits), (mid, mid_limits), (bad_executor, leaf_limits),
                   (leaf_hog, hog_limits if hog_limits is not None else leaf_limits)):
        if lim is None:
            t._task_options_base.pop("limits", None)
        else:
            t._task_options_base["limits"] = lim


def unpicklable_outcome(spec, outcome):
    """A CAUGHT failure whose exception object cannot be pickled (mode 4): redun cannot hand the object to the recover task
    (arguments are hashed by pickling -> TypeError) and records a plain substitute Exception that the catch's error class
    does not match; which of these surfaces depends on whether the failing call was deduplicated.  The run terminates by
    raising; the outcome oracles of C09 / C12 (termination; uncaught failures) accept it."""
    if outcome[0] != "error":
        return False
    if not any(fail and caught and mode == 4 for (x, fail, caught, mode) in spec):
        return False
    err = outcome[1]
    text = str(err)
    return isinstance(err, UnpicklableError) or "cannot pickle" in text or "UnpicklableError" in text


def expected(spec, with_bad=False):
    """What the reduction semantics prescribe for the template: value, or the first uncaught failure in evaluation order
    is *an* admissible error (any uncaught failing leaf may be the one reported, depending on completion order)."""
    if with_bad == 2:  # catch_all template
        vals = [("error:leaf %s failed" % (x,)) if fail else ("leaf", x) for (x, fail, caught, mode) in spec]
        return vals, []
    vals = []
    errors = []
    for (x, fail, caught, mode) in spec:
        if fail and not caught:
            errors.append("leaf %s failed" % (x,))
            vals.append(None)
        elif fail:
            vals.append(("recovered", "leaf %s failed" % (x,)))
        else:
            vals.append(("leaf", x))
    if with_bad == 1:
        vals = [("recovered", 'Unknown executor "no-such-executor"')] + vals
    return vals, errors


def run_case(spec, pick, limits, leaf_limits, mid_limits=None, early=False, symbolic=False, with_bad=False, salt=None,
             resources=("r",), backend="shared", fifo_tasks=("mid", "outer", "main", "main_bad", "main_all", "recover", "recover_all"), hog_limits=None,
             run_kwargs=None, lab=None):
    """One lab run of the template.  Returns (lab, outcome, salt)."""
    set_limits(leaf_limits, mid_limits, hog_limits)
    if lab is not None:
        salt = salt or new_salt()
        prog = {0: main, 1: main_bad, 2: main_all}[int(with_bad)]
        return lab, lab.run(prog(salt, list(spec)), **(run_kwargs or {})), salt
    lab = Lab(pick, limits=limits, early=early, backend=(shared_backend() if backend == "shared" else backend),
              symbolic=symbolic, resources=resources, fifo_tasks=() if (early == 1 or not fifo_tasks) else (("main", "main_bad", "main_all", "recover", "recover_all") if early == 2 else fifo_tasks))
    salt = salt or new_salt()
    prog = {0: main, 1: main_bad, 2: main_all}[int(with_bad)]
    outcome = lab.run(prog(salt, list(spec)), **(run_kwargs or {}))
    return lab, outcome, salt
