"""C11 — The job arrayer hands off every job exactly once.

Real code, real threads (stub S7 ThreadLab): JobArrayer.add_job / get_stale_descrs / submit_pending_jobs /
_monitor_stale_jobs and JobDescription (redun/job_array.py) run unmodified in an adder thread and a monitor thread that
are serialised at every source line (and at every bytecode instruction of the `num_pending` updates); the interleaving
(bounded number of pre-emptions), the stream of jobs, the clock and the array sizes are solver choice variables.
"""
import importlib
import sys

from vp.core import SL, Condition, choose, guard, native
from vp.stubs.threadlab import LabEvent, LabLock, ThreadLab

JA = importlib.import_module("redun.job_array")

PROPERTY = "C11"
FUNCTIONS = ["redun.job_array.JobArrayer.__init__", "JobArrayer.add_job", "JobArrayer.get_stale_descrs",
             "JobArrayer.submit_pending_jobs", "JobArrayer._monitor_stale_jobs", "redun.job_array.JobDescription"]
ASSUMPTIONS = [
    "the adder sleeps once (where the clock jumps) and the submit callback blocks (I/O): at those points any thread may run next "
    "without counting as a pre-emption",
    "S7 ThreadLab: CPython switches threads only between bytecode instructions; the lab yields at every source line of "
    "redun/job_array.py and at every instruction of the lines that update num_pending; one adder thread and the monitor "
    "thread; at most 1 (quick) / 2-3 (thorough) pre-emptions",
    "threading.Lock / Event of the arrayer replaced by cooperative stand-ins with the same contract; JobArrayer.start (thread "
    "management) neutralised; time.time replaced by a clock the harness advances; jobs are light stand-ins with task name and options",
    "<= 4 (quick) / 5 (thorough) jobs over two task names and two option values; after the activity two more monitor rounds "
    "with the clock advanced hand off what is left",
]


class _Task:
    def __init__(self, name):
        self.fullname = name
        self.script = False


class _Job:
    def __init__(self, i, name, mem):
        self.id = "job%d" % i
        self.task = _Task(name)
        self._options = {"memory": mem}

    def get_options(self):
        return self._options

    def __repr__(self):
        return "%s(%s,mem=%s)" % (self.id, self.task.fullname, self._options["memory"])


class _Clock:
    def __init__(self):
        self.now = 1000.0

    def time(self):
        return self.now


KINDS = [("t", 1), ("t", 2), ("u", 1)]  # (task name, memory option): same task with different option values must not mix
SIZES = [(2, 2), (2, 3), (3, 3), (2, 10)]  # (min_array_size, max_array_size)
_LINES = {}


def _opcode_lines():
    """Source lines of job_array.py that update num_pending (found from the current source on every run)."""
    if "v" not in _LINES:
        import inspect
        src, start = inspect.getsourcelines(JA.JobArrayer)
        _LINES["v"] = [start + i for i, line in enumerate(src) if "num_pending" in line and ("+=" in line or "-=" in line)]
    return _LINES["v"]


def run_case(pick, kinds_i, sizes_i, max_switches, advance_at):
    """One controlled execution.  Returns (ok, detail)."""
    clock = _Clock()
    JA.time = clock  # module attribute `time` as seen by job_array
    lab = ThreadLab(pick, files=("job_array.py",), max_switches=max_switches, opcode_lines=_opcode_lines())
    batches = []
    errors = []
    extra_jobs = []

    def submit(jobs):
        batches.append(list(jobs))
        lab.pause()  # the executor's submit callback blocks in I/O: other threads may run meanwhile (not a pre-emption)

    mn, mx = SIZES[sizes_i]
    arr = JA.JobArrayer(submit, errors.append, submit_interval=0.01, stale_time=1.0, min_array_size=mn, max_array_size=mx)
    arr._lock = LabLock(lab)
    arr.start = lambda: None
    rounds = 2
    arr._exit_flag = LabEvent(lab, rounds)
    jobs = []
    kinds = [KINDS[i] for i in kinds_i]
    njobs = len(kinds)
    for i, (name, mem) in enumerate(kinds):
        jobs.append(_Job(i, name, mem))

    def adder():
        for i, j in enumerate(jobs):
            if i == advance_at:
                clock.now += 5.0  # time passes (the adder sleeps): everything added so far becomes stale
                lab.pause()
            arr.add_job(j)
        if advance_at == njobs:
            clock.now += 5.0

    lab.spawn("adder", adder)
    lab.spawn("monitor", arr._monitor_stale_jobs)
    lab.run()
    trace_tail = lab.trace[-12:]
    if lab.deadlock:
        return False, "threads blocked forever (schedule tail %r)" % (trace_tail,)
    if lab.errors():
        return False, "a thread died: %r (schedule tail %r)" % (lab.errors(), trace_tail)
    if errors:
        return False, "the monitor failed: %r (schedule tail %r)" % (errors, trace_tail)
    # once activity has stopped: the pending count equals the number of jobs not yet handed off
    handed = [j for b in batches for j in b]
    not_handed = [j for j in jobs if j not in handed]
    if arr.num_pending != len(not_handed):
        return False, "num_pending = %d but %d job(s) are not handed off yet (batches %r, schedule tail %r)" % (
            arr.num_pending, len(not_handed), batches, trace_tail)
    # let the monitor hand off the rest, without interference
    clock.now += 10.0
    final = ThreadLab(lambda n, label: 0, files=("job_array.py",), max_switches=0)
    arr._lock = LabLock(final)
    arr._exit_flag = LabEvent(final, 2)
    final.spawn("monitor", arr._monitor_stale_jobs)
    final.run()
    if errors or final.errors():
        return False, "the monitor failed in the final rounds: %r %r" % (errors, final.errors())
    handed = [j for b in batches for j in b]
    for j in jobs:
        c = sum(1 for x in handed if x is j)
        if c != 1:
            return False, "%r was handed off %d time(s) (batches %r, schedule tail %r)" % (j, c, batches, trace_tail)
    for b in batches:
        keys = set((j.task.fullname, j.get_options()["memory"]) for j in b)
        if len(keys) != 1:
            return False, "a batch mixes tasks / options: %r" % (b,)
        if len(b) > mx or not (len(b) == 1 or len(b) >= mn):
            return False, "batch of size %d (min %d, max %d): %r" % (len(b), mn, mx, b)
    if arr.num_pending != 0:
        return False, "everything is handed off but num_pending = %d" % arr.num_pending
    if arr.pending or arr.pending_timestamps:
        leftover = {k: v for k, v in arr.pending.items() if v}
        if leftover or any(k not in arr.pending for k in arr.pending_timestamps):
            return False, "pending tables not empty / out of sync: %r %r" % (dict(arr.pending), dict(arr.pending_timestamps))
    return True, "ok"


def c11_interleavings(k: int) -> bool:
    """
    post: _
    """
    def body():
        kinds_i, sizes_i, switches, advance_at = SL()
        return native(lambda: run_case(choose, kinds_i, sizes_i, switches, advance_at)[0])
    return guard(body, k=k)


_Q = [((0, 0, 0, 0), 0, 0, 3), ((0, 0, 0, 0), 0, 1, 3), ((0, 0, 0, 0, 0), 1, 0, 4), ((0, 0, 0), 0, 1, 2), ((0, 0, 0), 1, 1, 1), ((0, 1, 0), 0, 1, 1), ((0, 2, 0), 3, 1, 2), ((0, 0, 0, 0), 1, 1, 3),
      ((0, 0, 0), 2, 1, 3), ((0, 0, 2), 0, 1, 0)]
_T = [(k, s, 1, a) for k in ((0, 0, 0), (0, 1, 0), (0, 2, 0), (0, 0, 0, 0), (0, 2, 0, 2)) for s in range(len(SIZES)) for a in (0, 1, 2, 3)] \
    + [(k, s, 2, a) for k in ((0, 0), (0, 2), (0, 1)) for s in (0, 1) for a in (0, 1, 2)] + [((0, 0, 0), 1, 2, 2), ((0, 0), 0, 3, 1)]
CONDITIONS = [
    Condition(c11_interleavings, slices=_Q, thorough_slices=_T, timeout=280, thorough_timeout=3000,
              bounds="slice = (kinds of the jobs added, as indices into %r; index into (min,max) array sizes %r; pre-emption bound; "
                     "index of the job before which the clock jumps past stale_time); the interleaving (which thread runs at every "
                     "source line / instruction, within the pre-emption bound) is solver-chosen" % (KINDS, SIZES)),
]


def replay(cond, args, extra):
    items = iter(extra["choices"])
    kinds_i, sizes_i, switches, advance_at = extra["slice"]
    ok, detail = run_case(lambda n, label: min(next(items)[1], n - 1), kinds_i, sizes_i, switches, advance_at)
    return (not ok), detail, None
