"""Harness-side helpers shared by all condition modules.

A *condition* is a plain Python function with a PEP-316 docstring (``pre:`` / ``post: _``) whose
body is ``return guard(lambda: <assertion over the real code>, name=value, ...)``.  CrossHair
executes it symbolically; ``guard`` turns a false assertion *or* an escaped exception into a
recorded, realised counterexample (the solver's model for the symbolic inputs and for every lazily
created choice variable), which the driver then replays against the real code.
"""
import json
import os
from typing import Any, Callable, Dict, List, Optional

from crosshair.core import deep_realize, proxy_for_type
from crosshair.tracers import NoTracing, ResumedTracing, is_tracing
from crosshair.util import IgnoreAttempt, NotDeterministic

# ---------------------------------------------------------------------------------------------
# Worker-controlled globals
TWIN = False  # vacuity twin: the assertion is replaced by False after the body ran
SLICE: Any = None  # current partition slice (see Condition.slices)
EXCLUDE: frozenset = frozenset()  # ids of known findings whose input class is assumed away
CASE_FILE: Optional[str] = None  # where guard() writes the realised counterexample
_CHOICES: List[Any] = []  # lazily created choice variables of the current path
_NOTES: List[Any] = []  # free-form path notes (realised with the case)


def SL() -> Any:
    """Current partition slice; referenced from ``pre:`` lines."""
    return SLICE


def excluded(finding_id: str) -> bool:
    return finding_id in EXCLUDE


def reset_path() -> None:
    del _CHOICES[:]
    del _NOTES[:]


def choose(n: int, label: str = "c") -> int:
    """A fresh symbolic choice in range(n), created at the choice site (lazy choice variable).

    The underlying variable is an unconstrained int; every value outside 0..n-2 means n-1, so no
    path is infeasible and the n branches are exhaustive.
    """
    if n <= 1:
        _CHOICES.append((label, 0))
        return 0
    if not is_tracing():
        # called from a natively executed block: decide directly on the solver's state space (same SMT decisions as below,
        # without creating a traced proxy object; about 7x cheaper per decision)
        import z3
        from crosshair.statespace import context_statespace
        space = context_statespace()
        v = z3.Int("%s%d" % (label, len(_CHOICES)))
        lo, hi = 0, n
        while hi - lo > 1:
            mid = (lo + hi) // 2
            if space.choose_possible(v < mid):
                hi = mid
            else:
                lo = mid
        _CHOICES.append((label, lo))
        return lo
    c = proxy_for_type(int, "%s%d" % (label, len(_CHOICES)))
    # binary search on an unconstrained int: values below 0 mean 0, values >= n mean n-1 (no infeasible path),
    # about log2(n) solver decisions per choice
    lo, hi = 0, n
    while hi - lo > 1:
        mid = (lo + hi) // 2
        if c < mid:
            hi = mid
        else:
            lo = mid
    idx = lo
    _CHOICES.append((label, idx))
    return idx


def fresh_int(label: str = "v") -> int:
    """A fresh unconstrained symbolic int created at the use site."""
    if not is_tracing():
        with ResumedTracing():
            return fresh_int(label)
    v = proxy_for_type(int, "%s%d" % (label, len(_CHOICES)))
    _CHOICES.append((label, v))
    return v


def assume(cond: Any) -> None:
    """Restrict the current path to inputs satisfying cond (an inline precondition)."""
    if not cond:
        raise IgnoreAttempt("assumption")


def fresh(typ: Any, label: str = "x") -> Any:
    """A fresh unconstrained symbolic value of a type, recorded with the case."""
    if not is_tracing():
        with ResumedTracing():
            return fresh(typ, label)
    v = proxy_for_type(typ, "%s%d" % (label, len(_CHOICES)))
    _CHOICES.append((label, v))
    return v


def fresh_bool(label: str = "b") -> bool:
    return choose(2, label) == 1


def native(thunk: Callable[[], Any]) -> Any:
    """Run a block without CrossHair's tracing (native speed).  Only for blocks whose inputs are already concrete on
    this path (e.g. values derived from choose()); symbolic values must not be touched inside."""
    with NoTracing():
        return thunk()


def note(x: Any) -> None:
    _NOTES.append(x)


# ---------------------------------------------------------------------------------------------
# JSON encoding of realised cases


def to_jsonable(x: Any) -> Any:
    if isinstance(x, bool) or x is None or isinstance(x, (int, str)):
        return x
    if isinstance(x, float):
        return {"__float__": repr(x)}
    if isinstance(x, (bytes, bytearray)):
        return {"__bytes__": bytes(x).hex()}
    if isinstance(x, tuple):
        return {"__tuple__": [to_jsonable(i) for i in x]}
    if isinstance(x, (list,)):
        return [to_jsonable(i) for i in x]
    if isinstance(x, (set, frozenset)):
        return {"__set__": [to_jsonable(i) for i in sorted(x, key=repr)]}
    if isinstance(x, dict):
        return {"__dict__": [[to_jsonable(k), to_jsonable(v)] for k, v in x.items()]}
    return {"__repr__": repr(x)}


def from_jsonable(x: Any) -> Any:
    if isinstance(x, list):
        return [from_jsonable(i) for i in x]
    if isinstance(x, dict):
        if "__bytes__" in x:
            return bytes.fromhex(x["__bytes__"])
        if "__float__" in x:
            return float(x["__float__"])
        if "__tuple__" in x:
            return tuple(from_jsonable(i) for i in x["__tuple__"])
        if "__set__" in x:
            return set(from_jsonable(i) for i in x["__set__"])
        if "__dict__" in x:
            return {from_jsonable(k): from_jsonable(v) for k, v in x["__dict__"]}
        if "__repr__" in x:
            return x["__repr__"]
    return x


def _record(named: Dict[str, Any], detail: Optional[str]) -> None:
    case = {k: deep_realize(v) for k, v in named.items()}
    choices = [deep_realize(c) for c in _CHOICES]
    notes = [deep_realize(n) for n in _NOTES]
    detail = deep_realize(detail)
    with NoTracing():
        if CASE_FILE:
            rec = {
                "args": to_jsonable(case),
                "choices": to_jsonable([list(c) for c in choices]),
                "notes": to_jsonable(notes),
                "detail": detail,
                "twin": TWIN,
            }
            with open(CASE_FILE, "w") as f:
                json.dump(rec, f)


def guard(thunk: Callable[[], Any], **named: Any) -> bool:
    """Run the assertion; record a realised counterexample when it is false or raises."""
    detail = None
    reset_path()
    try:
        ok = thunk()
    except NotDeterministic:
        raise
    except Exception as e:  # CrossHair's control-flow exceptions are BaseException
        ok = False
        with NoTracing():
            import traceback

            tb = traceback.extract_tb(e.__traceback__)
            where = "%s:%s" % (os.path.basename(tb[-1].filename), tb[-1].lineno) if tb else "?"
        detail = "raised " + type(e).__name__ + " at " + where
    if TWIN:
        ok = False
    if not ok:
        _record(named, detail)
        return False
    return True


# ---------------------------------------------------------------------------------------------
# Condition registry


class Condition:
    def __init__(
        self,
        fn: Callable,
        tier: str = "quick",
        timeout: float = 60.0,
        path_timeout: Optional[float] = None,
        slices: Optional[list] = None,
        thorough_slices: Optional[list] = None,
        bounds: str = "",
        functions: Optional[List[str]] = None,
        thorough_timeout: Optional[float] = None,
        expect_inconclusive: bool = False,
    ):
        self.fn = fn
        self.name = fn.__name__
        self.tier = tier  # "quick": in both tiers; "thorough": only in the thorough tier
        self.timeout = timeout
        self.thorough_timeout = thorough_timeout or timeout
        self.path_timeout = path_timeout
        self.slices = slices
        self.thorough_slices = thorough_slices
        self.bounds = bounds
        self.functions = functions or []
        self.expect_inconclusive = expect_inconclusive

    def slices_for(self, tier: str) -> list:
        if tier == "thorough" and self.thorough_slices is not None:
            return self.thorough_slices
        return self.slices if self.slices is not None else [None]
