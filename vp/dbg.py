"""Debug helper: python -m vp.dbg <pid> <cond> [slice-json] [timeout] [--twin] [--exclude a,b]"""
import json, os, sys, tempfile, subprocess
pid, cond = sys.argv[1], sys.argv[2]
sl = json.loads(sys.argv[3]) if len(sys.argv) > 3 and not sys.argv[3].startswith("--") else None
tmo = float(sys.argv[4]) if len(sys.argv) > 4 and not sys.argv[4].startswith("--") else 60
d = tempfile.mkdtemp()
exclude = []
for a in sys.argv:
    if a.startswith("--exclude="):
        exclude = a.split("=", 1)[1].split(",")
spec = dict(module="vp.harness." + pid.lower(), cond=cond, slice=sl, twin="--twin" in sys.argv, timeout=tmo,
            path_timeout=None, exclude=exclude, case_file=d + "/case.json")
json.dump(spec, open(d + "/spec.json", "w"))
p = subprocess.run([sys.executable, "-m", "vp.worker", d + "/spec.json"], capture_output=True, text=True)
print(p.stderr[-3000:])
for line in p.stdout.splitlines():
    if line.startswith("@@RESULT "):
        r = json.loads(line[9:])
        print(r.pop("message"))
        print(json.dumps(r, indent=1))
    else:
        print(line)
