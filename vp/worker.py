"""Run ONE condition (one partition slice) through CrossHair's API in this process.

usage: python -m vp.worker <spec.json>      (spec written by the driver; result JSON on the last
stdout line, prefixed by ``@@RESULT ``).
"""
import collections
import importlib
import json
import os
import sys
import time
import traceback


def main() -> None:
    spec = json.load(open(sys.argv[1]))
    t_start = time.time()
    import z3

    counters = {"z3_queries": 0, "solver_s": 0.0}
    _orig_check = z3.Solver.check

    def counted_check(self, *a):
        t = time.perf_counter()
        try:
            return _orig_check(self, *a)
        finally:
            counters["z3_queries"] += 1
            counters["solver_s"] += time.perf_counter() - t

    z3.Solver.check = counted_check

    import crosshair.fnutil as fu

    _orig_fn_globals = fu.fn_globals

    def fn_globals(fn):
        try:
            return _orig_fn_globals(fn)
        except ValueError:  # "Cell is empty" on closures with unassigned nonlocals
            return getattr(fn, "__globals__", {})

    fu.fn_globals = fn_globals
    import crosshair.condition_parser as cp
    import crosshair.enforce as enf

    for m in (cp, enf):
        if hasattr(m, "fn_globals"):
            m.fn_globals = fn_globals

    from crosshair.core_and_libs import AnalysisKind, MessageType, analyze_function
    from crosshair.options import AnalysisOptionSet

    from vp import core

    result = {
        "cond": spec["cond"],
        "slice": spec.get("slice"),
        "twin": bool(spec.get("twin")),
        "verdict": "HARNESS_ERROR",
        "paths": 0,
        "message": "",
    }
    try:
        mod = importlib.import_module(spec["module"])
        if hasattr(mod, "install"):
            mod.install()
        core.TWIN = bool(spec.get("twin"))
        core.SLICE = spec.get("slice")
        if isinstance(core.SLICE, list):
            core.SLICE = tuple(core.SLICE)
        core.EXCLUDE = frozenset(spec.get("exclude") or [])
        core.CASE_FILE = spec["case_file"]
        if os.path.exists(core.CASE_FILE):
            os.remove(core.CASE_FILE)
        cond = {c.name: c for c in mod.CONDITIONS}[spec["cond"]]
        if hasattr(mod, "warmup"):
            mod.warmup(cond.name)
        stats = collections.Counter()
        kw = dict(
            per_condition_timeout=float(spec["timeout"]),
            analysis_kind=[AnalysisKind.PEP316],
            report_all=True,
            max_uninteresting_iterations=sys.maxsize,
            stats=stats,
        )
        if spec.get("path_timeout"):
            kw["per_path_timeout"] = float(spec["path_timeout"])
        opts = AnalysisOptionSet(**kw)
        checkables = analyze_function(cond.fn, opts)
        states = []
        messages = []
        for c in checkables:
            if not hasattr(c, "analyze"):
                continue
            for m in c.analyze():
                states.append(m.state)
                messages.append("%s: %s" % (m.state.name, (m.message or "")[:400]))
                if m.state in (MessageType.EXEC_ERR, MessageType.POST_ERR) and m.traceback:
                    messages.append(m.traceback[-1500:])
            st = getattr(getattr(c, "options", None), "stats", None)
        result["paths"] = int(stats.get("num_paths", 0))
        result["message"] = "\n".join(messages)[:4000]
        order = [
            MessageType.SYNTAX_ERR,
            MessageType.IMPORT_ERR,
            MessageType.POST_FAIL,
            MessageType.EXEC_ERR,
            MessageType.POST_ERR,
            MessageType.PRE_UNSAT,
            MessageType.CANNOT_CONFIRM,
            MessageType.CONFIRMED,
        ]
        verdict = None
        for o in order:
            if o in states:
                verdict = o.name
                break
        if verdict is None:
            verdict = "NO_CONDITION"
        result["verdict"] = verdict
        if os.path.exists(core.CASE_FILE):
            try:
                result["case"] = json.load(open(core.CASE_FILE))
            except Exception:
                result["case"] = None
    except BaseException as e:  # noqa
        result["verdict"] = "HARNESS_ERROR"
        result["message"] = "".join(traceback.format_exception(type(e), e, e.__traceback__))[-4000:]
    result.update(counters)
    result["solver_s"] = round(result["solver_s"], 3)
    result["wall_s"] = round(time.time() - t_start, 3)
    sys.stdout.flush()
    print("@@RESULT " + json.dumps(result))
    sys.stdout.flush()
    os._exit(0)


if __name__ == "__main__":
    main()
