"""S4 — FakeSession: runs the real SQLAlchemy *clause objects* that redun's backend builds over
in-memory row objects (plain namespaces or the real model instances), so that column values can be
symbolic.  It replaces sqlite + ORM execution only; the backend methods themselves are the real ones
(called unbound on a light stand-in for RedunBackendDb).

Supported: query(entity | column, ...), filter / filter_by, join / outerjoin (with ON clause), order_by (asc/desc),
first / all / one_or_none / one / count / __iter__, Query.update (scalar assignments), Session.add / add_all /
commit / rollback / flush / get; SQL three-valued logic for ==, !=, <, <=, >, >=, IS, IS NOT, IN, AND, OR, NOT, CAST.
Anything else raises NotImplementedError (the condition then ends inconclusive / as a harness error, never as a pass).
Uniqueness and foreign-key enforcement are not modelled.
"""
import operator
from contextlib import contextmanager
from types import SimpleNamespace as NS

from sqlalchemy.orm.util import AliasedClass
from sqlalchemy.sql import elements as E
from sqlalchemy.sql import operators as O


def _table_name(entity):
    """Key under which the entity's row lives in an evaluation environment (alias name for aliased classes)."""
    if isinstance(entity, AliasedClass):
        import sqlalchemy as sa
        return sa.inspect(entity).selectable.name
    if hasattr(entity, "__table__"):
        return entity.__table__.name
    return entity.__clause_element__().table.name


def _base_table(entity):
    if isinstance(entity, AliasedClass):
        import sqlalchemy as sa
        return sa.inspect(entity).mapper.local_table.name
    return _table_name(entity)


# Selective tracing: a harness may run a backend method natively (CrossHair NoTracing) so that SQLAlchemy's clause
# construction is not traced; SELECTIVE then makes the evaluator resume tracing wherever row values (possibly symbolic) are
# touched.  Outside an analysis (self-tests, replays) SELECTIVE stays False and everything is plain Python.
SELECTIVE = False


def _resume(fn):
    def wrapper(*a, **k):
        if SELECTIVE:
            from crosshair.tracers import ResumedTracing, is_tracing
            if not is_tracing():
                with ResumedTracing():
                    return fn(*a, **k)
        return fn(*a, **k)
    wrapper.__name__ = fn.__name__
    return wrapper


def run_selective(thunk):
    """Run thunk natively with the evaluator tracing selectively (only inside a CrossHair analysis)."""
    global SELECTIVE
    try:
        from crosshair.tracers import NoTracing, is_tracing
    except ImportError:
        return thunk()
    if not is_tracing():
        return thunk()
    SELECTIVE = True
    try:
        with NoTracing():
            return thunk()
    finally:
        SELECTIVE = False


@_resume
def truth(v):
    return v is True or (v is not None and v is not False and bool(v))


_CMP = {O.eq: operator.eq, O.ne: operator.ne, O.lt: operator.lt, O.le: operator.le, O.gt: operator.gt, O.ge: operator.ge}


@_resume
def _eq(a, b):
    return bool(a == b)


@_resume
def _cmp(op, a, b):
    return bool(_CMP[op](a, b))


@_resume
def _any_eq(left, vals):
    return any(left == v for v in vals)


def ev(c, env):
    """Evaluate a SQLAlchemy clause element on env: table name -> row object (or None for an outer-join miss)."""
    if hasattr(c, "__clause_element__"):
        c = c.__clause_element__()
    if isinstance(c, E.BindParameter):
        return c.value
    if isinstance(c, (E.Cast, E.TypeCoerce)):
        return ev(c.clause, env)
    if isinstance(c, E.Grouping):
        return ev(c.element, env)
    if isinstance(c, E.True_):
        return True
    if isinstance(c, E.False_):
        return False
    if isinstance(c, E.Null):
        return None
    if isinstance(c, E.BooleanClauseList):
        vals = [ev(x, env) for x in c.clauses]
        if c.operator is O.and_:
            if any(v is False for v in vals):
                return False
            if any(v is None for v in vals):
                return None
            return all(truth(v) for v in vals)
        if any(truth(v) for v in vals):
            return True
        if any(v is None for v in vals):
            return None
        return False
    if isinstance(c, E.UnaryExpression):
        if c.operator is O.inv:
            v = ev(c.element, env)
            return None if v is None else (not truth(v))
        if c.modifier in (O.desc_op, O.asc_op):
            return ev(c.element, env)
        raise NotImplementedError("unary %r" % (c.operator,))
    if isinstance(c, E.BinaryExpression):
        left = ev(c.left, env)
        if c.operator in (O.in_op, O.not_in_op):
            if isinstance(c.right, E.BindParameter):
                vals = list(c.right.value)
            else:
                vals = [ev(x, env) for x in getattr(c.right, "clauses", getattr(getattr(c.right, "element", None), "clauses", []))]
            if left is None:
                return None
            r = _any_eq(left, vals)
            return r if c.operator is O.in_op else (not r)
        right = ev(c.right, env)
        if c.operator in (O.is_, O.is_not):
            same = (left is None and right is None) or (left is not None and right is not None and _eq(left, right))
            return same if c.operator is O.is_ else (not same)
        if left is None or right is None:
            return None
        if c.operator in _CMP:
            return _cmp(c.operator, left, right)
        raise NotImplementedError("binary operator %r" % (c.operator,))
    if hasattr(c, "table") and hasattr(c, "key"):
        row = env.get(c.table.name, "<absent>")
        if row == "<absent>":
            raise NotImplementedError("column of table %s not joined" % c.table.name)
        if row is None:
            return None
        return getattr(row, c.key)
    raise NotImplementedError(type(c))


class FakeQuery:
    def __init__(self, sess, entities):
        self.sess = sess
        self.entities = entities
        self.joins = []  # (table name, on clause or None, outer?)
        self.conds = []
        self.order = []
        self.base = []
        for e in entities:
            t = _table_name(e)
            if t not in self.base:
                self.base.append(t)
        self._limit = None

    def _clone(self):
        q = type(self).__new__(type(self))
        q.sess, q.entities = self.sess, self.entities
        q.joins, q.conds, q.order, q.base = list(self.joins), list(self.conds), list(self.order), list(self.base)
        q._limit = self._limit
        return q

    def join(self, target, onclause=None, isouter=False):
        q = self._clone()
        prop = getattr(target, "property", None)
        if prop is not None and hasattr(prop, "mapper") and hasattr(prop, "primaryjoin"):
            # join along a relationship attribute, e.g. query(Execution).join(Execution.jobs)
            t = prop.mapper.local_table.name
            q.joins.append((t, prop.primaryjoin if onclause is None else onclause, isouter, t))
            return q
        q.joins.append((_table_name(target), onclause, isouter, _base_table(target)))
        return q

    def add_columns(self, *cols):
        q = self._clone()
        q.entities = tuple(self.entities) + tuple(cols)
        return q

    def outerjoin(self, target, onclause=None):
        return self.join(target, onclause, isouter=True)

    def filter(self, *clauses):
        q = self._clone()
        q.conds.extend(clauses)
        return q

    def filter_by(self, **kw):
        q = self._clone()
        ent = self.entities[0]
        if not hasattr(ent, "__table__") and hasattr(ent, "class_"):
            ent = ent.class_  # query(Model.column).filter_by(...) refers to the column's model
        for k, v in kw.items():
            q.conds.append(getattr(ent, k) == v)
        return q

    def order_by(self, *o):
        q = self._clone()
        q.order.extend(o)
        return q

    def limit(self, n):
        q = self._clone()
        q._limit = n
        return q

    def distinct(self):
        return self

    def _envs(self):
        envs = [{}]
        for t in self.base:
            envs = [dict(env, **{t: row}) for env in envs for row in self.sess.rows(t)]
        for t, on, outer, base in self.joins:
            new = []
            for env in envs:
                matched = False
                for row in self.sess.rows(base):
                    env2 = dict(env)
                    env2[t] = row
                    if on is None or truth(ev(on, env2)):
                        new.append(env2)
                        matched = True
                if outer and not matched:
                    env2 = dict(env)
                    env2[t] = None
                    new.append(env2)
            envs = new
        out = [env for env in envs if all(truth(ev(c, env)) for c in self.conds)]
        for o in reversed(self.order):
            desc = isinstance(o, E.UnaryExpression) and o.modifier is O.desc_op
            col = o.element if isinstance(o, E.UnaryExpression) else o
            out = _stable_sort(out, lambda env: ev(col, env), desc)
        return out

    def _rows(self):
        res = []
        single_entity = len(self.entities) == 1 and hasattr(self.entities[0], "__table__") and not hasattr(self.entities[0], "__clause_element__")
        for env in self._envs():
            vals = []
            for e in self.entities:
                if hasattr(e, "__table__"):
                    vals.append(env[_table_name(e)])
                else:
                    vals.append(ev(e, env))
            res.append(vals[0] if single_entity else tuple(vals))
        if single_entity:  # an entity query returns each row object once
            seen, uniq = [], []
            for r in res:
                if not any(r is s for s in seen):
                    seen.append(r)
                    uniq.append(r)
            res = uniq
        if self._limit is not None:
            res = res[: self._limit]
        return res

    def __iter__(self):
        return iter(self._rows())

    def all(self):
        return self._rows()

    def first(self):
        r = self._rows()
        return r[0] if r else None

    def one_or_none(self):
        r = self._rows()
        if len(r) > 1:
            raise AssertionError("MultipleResultsFound")
        return r[0] if r else None

    def one(self):
        r = self._rows()
        if len(r) != 1:
            raise AssertionError("expected exactly one row, got %d" % len(r))
        return r[0]

    def count(self):
        return len(self._rows())

    def update(self, values, synchronize_session=None):
        n = 0
        for row in self._rows():
            for col, val in values.items():
                key = col if isinstance(col, str) else col.key
                setattr(row, key, val)
            n += 1
        return n

    def delete(self, synchronize_session=None):
        rows = self._rows()
        t = self.base[0]
        self.sess.tables[t] = [r for r in self.sess.tables[t] if not any(r is x for x in rows)]
        return len(rows)


def _stable_sort(items, key, desc):
    """Insertion sort with explicit comparisons (keeps symbolic keys symbolic; NULLs first as in sqlite ASC)."""
    out = []
    for it in items:
        k = key(it)
        pos = len(out)
        for i, (k2, _) in enumerate(out):
            before = _lt(k, k2) if not desc else _lt(k2, k)
            if before:
                pos = i
                break
        out.insert(pos, (k, it))
    return [it for _, it in out]


@_resume
def _lt(a, b):
    if a is None:
        return b is not None
    if b is None:
        return False
    return bool(a < b)


class FakeSession:
    """tables: name -> list of row objects.  Rows added are visible at once (autoflush); commit makes them durable,
    rollback drops what was added since the last commit (attribute updates of durable rows are not undone)."""

    def __init__(self, tables=None):
        self.tables = tables if tables is not None else {}
        self.pending = []
        self.commits = 0
        self.crash_after = None  # optional: raise Crash once this many commits happened

    def rows(self, t):
        return self.tables.setdefault(t, [])

    def query(self, *entities):
        return FakeQuery(self, entities)

    def add(self, obj):
        t = obj.__table__
        for col in t.columns:
            if getattr(obj, col.key, None) is None and col.default is not None and getattr(col.default, "is_scalar", False):
                setattr(obj, col.key, col.default.arg)
        rows = self.rows(t.name)
        if not any(obj is r for r in rows):
            rows.append(obj)
            self.pending.append((t.name, obj))

    def add_all(self, objs):
        for o in objs:
            self.add(o)

    def flush(self):
        pass

    def commit(self):
        self.pending = []
        self.commits += 1
        if self.crash_after is not None and self.commits >= self.crash_after:
            raise Crash()

    def rollback(self):
        for t, obj in self.pending:
            self.tables[t] = [r for r in self.tables[t] if r is not obj]
        self.pending = []

    def get(self, entity, pk):
        t = entity.__table__
        pkcol = list(t.primary_key.columns)[0].key
        for r in self.rows(t.name):
            if getattr(r, pkcol) == pk:
                return r
        return None

    def close(self):
        pass


class Crash(BaseException):
    """Process death injected after a commit (BaseException: nothing in redun catches it)."""


class StandInBackend:
    """`self` for unbound RedunBackendDb methods: a session, no retries, no locking."""

    def __init__(self, tables=None):
        self.session = FakeSession(tables)
        self._db_retries = 0
        self.engine = object()

    @contextmanager
    def _acquire(self):
        yield

    @contextmanager
    def with_session(self):
        yield self.session


def bind(cls, backend_cls, names):
    """Copy the real (unwrapped where decorated) methods of the backend class onto a stand-in class."""
    for n in names:
        setattr(cls, n, getattr(backend_cls, n))
    return cls
