"""S7 — ThreadLab: real threads running the real (unmodified) code, serialised by a controller.

Every worker thread installs a ``sys.settrace`` hook that parks the thread at each *line* of the files under test (and
at each *bytecode instruction* of selected lines); exactly one thread runs at a time and the controller decides - through
``pick`` (solver choice variables, created lazily) - which thread proceeds to its next yield point.  Context switches away
from a thread that could continue are bounded (pre-emption bound); locks and events of the code under test are replaced by
cooperative stand-ins so that a blocked thread parks instead of blocking the process.  The same controller, fed with a
recorded schedule, replays an interleaving on the real code without the solver.
"""
import sys
import threading


class LabLock:
    """Cooperative replacement for threading.Lock (context-manager and acquire/release API)."""

    def __init__(self, lab, name="lock"):
        self.lab = lab
        self.name = name
        self.owner = None

    def acquire(self, blocking=True, timeout=-1):
        me = self.lab.current()
        while self.owner is not None:
            if me is None:
                raise RuntimeError("LabLock used outside the lab")
            self.lab.park(me, blocked_on=self)
        self.owner = me
        return True

    def release(self):
        self.owner = None

    def __enter__(self):
        self.acquire()
        return self

    def __exit__(self, *a):
        self.release()
        return False

    def locked(self):
        return self.owner is not None


class LabEvent:
    """Replacement for the monitor's exit flag: wait() is a yield point and returns False `rounds` times, then True."""

    def __init__(self, lab, rounds):
        self.lab = lab
        self.rounds = rounds
        self.waits = 0

    def wait(self, timeout=None):
        me = self.lab.current()
        if me is not None:
            self.lab.park(me)
        self.waits += 1
        return self.waits > self.rounds

    def set(self):
        self.rounds = -1

    def clear(self):
        pass

    def is_set(self):
        return self.waits > self.rounds


class _Worker:
    def __init__(self, lab, name, fn):
        self.lab = lab
        self.name = name
        self.fn = fn
        self.go = threading.Semaphore(0)
        self.finished = False
        self.error = None
        self.blocked_on = None
        self.steps = 0
        self.last_line = None
        self.paused = False
        self.thread = threading.Thread(target=self._main, daemon=True)

    def _main(self):
        self.lab._tls.worker = self
        self.go.acquire()  # wait for the first turn
        sys.settrace(self._trace)
        try:
            self.fn()
        except BaseException as e:  # noqa
            self.error = e
        finally:
            sys.settrace(None)
            self.finished = True
            self.lab._ctl.release()

    def _trace(self, frame, event, arg):
        if event == "call" and frame.f_code.co_filename.endswith(self.lab.files):
            return self._local
        return None

    def _local(self, frame, event, arg):
        if event == "line":
            frame.f_trace_opcodes = frame.f_lineno in self.lab.opcode_lines
            self.last_line = frame.f_lineno
            self.lab.park(self)
        elif event == "opcode":
            self.last_line = frame.f_lineno
            self.lab.park(self)
        return self._local


class ThreadLab:
    def __init__(self, pick, files, max_switches=2, opcode_lines=(), max_steps=4000):
        self.pick = pick
        self.files = tuple(files)
        self.max_switches = max_switches
        self.opcode_lines = set(opcode_lines)
        self.max_steps = max_steps
        self.workers = []
        self._tls = threading.local()
        self._ctl = threading.Semaphore(0)
        self.switches = 0
        self.trace = []  # (worker name, line) per step
        self.deadlock = False

    def current(self):
        return getattr(self._tls, "worker", None)

    def spawn(self, name, fn):
        w = _Worker(self, name, fn)
        self.workers.append(w)
        return w

    def park(self, worker, blocked_on=None):
        """Called in a worker thread: hand control back and wait for the next turn."""
        worker.blocked_on = blocked_on
        self._ctl.release()
        worker.go.acquire()
        worker.blocked_on = None

    def yield_point(self):
        """Explicit yield point for harness code running inside a worker (e.g. a callback)."""
        me = self.current()
        if me is not None:
            self.park(me)

    def pause(self):
        """Voluntary yield of the calling worker (it sleeps / blocks in I/O): any runnable thread, itself included, may run
        next and the switch does not count against the pre-emption bound."""
        me = self.current()
        if me is not None:
            me.paused = True
            self.park(me)

    def _runnable(self):
        return [w for w in self.workers if not w.finished and (w.blocked_on is None or not w.blocked_on.locked())]

    def run(self):
        """Run all workers to completion under the schedule.  Returns self."""
        for w in self.workers:
            w.thread.start()
        current = None
        steps = 0
        while True:
            runnable = self._runnable()
            if not runnable:
                self.deadlock = any(not w.finished for w in self.workers)
                break
            if current is not None and current.paused:
                current.paused = False
                current = None
            if current is None or current not in runnable:
                # forced switch (thread finished, blocked or paused): choosing the successor is free
                idx = self.pick(len(runnable), "next_thread") if len(runnable) > 1 else 0
                current = runnable[idx]
            elif len(runnable) > 1 and self.switches < self.max_switches:
                others = [w for w in runnable if w is not current]
                c = self.pick(len(others) + 1, "preempt")
                if c > 0:
                    current = others[c - 1]
                    self.switches += 1
            current.steps += 1
            steps += 1
            if steps > self.max_steps:
                self.deadlock = True
                break
            current.go.release()
            self._ctl.acquire()
            self.trace.append((current.name, current.last_line))
        return self

    def errors(self):
        return [(w.name, w.error) for w in self.workers if w.error is not None]
