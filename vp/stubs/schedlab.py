"""S6 — SchedLab: the real Scheduler (real in-memory SQLite backend) driven without threads.

* ``LabExecutor`` replaces the thread/process pools: ``submit`` only records the job; the task function runs in-line when
  the schedule says that this job completes (executor contract: every submitted job is reported exactly once through
  done_job / reject_job, at an arbitrary later time).
* ``LabQueue`` replaces ``scheduler.events_queue``: FIFO for the scheduler's own events; whenever the scheduler asks for
  the next event the *schedule* (solver choice variables, created lazily) decides which in-flight job completes - either
  only when the queue is empty ("late"), or also ahead of already queued events ("early").
* monitors: submissions, units held per resource at every submission/completion, deadlock (queue empty, nothing in
  flight, workflow pending), final bookkeeping.

The whole run executes natively (NoTracing); only the resource arithmetic of the scheduler and the monitors' comparisons
are executed symbolically (ResumedTracing), so that limits and per-job demands can be symbolic integers.
"""
import importlib
import logging

from crosshair.tracers import NoTracing, ResumedTracing, is_tracing

from redun.executors.base import Executor

RS = importlib.import_module("redun.scheduler")


class Deadlock(Exception):
    pass


class LimitExceeded(Exception):
    pass


def _traced(fn):
    def w(*a, **k):
        with ResumedTracing():
            return fn(*a, **k)
    w.__name__ = getattr(fn, "__name__", "w")
    w._vp_traced = True
    return w


_ARITH = ["_is_job_within_limits", "_consume_resources", "_release_resources", "_add_limits"]


def install_symbolic_arithmetic():
    """Run the scheduler's resource arithmetic under tracing even though the run as a whole is native."""
    for name in _ARITH:
        fn = getattr(RS.Scheduler, name)
        if not getattr(fn, "_vp_traced", False):
            setattr(RS.Scheduler, name, _traced(fn))


class LabExecutor(Executor):
    def __init__(self, name, lab):
        super().__init__(name)
        self.lab = lab

    def submit(self, job):
        self.lab.on_submit(job)

    def submit_script(self, job):
        self.lab.on_submit(job)


class LabQueue:
    def __init__(self, lab):
        self.q = []
        self.lab = lab

    def put(self, f):
        lab = self.lab
        if lab.early == 2 and lab.running and lab.inflight and "._exec_job." in getattr(f, "__qualname__", "") \
                and lab.pick(2, "completion_arrives_first") == 1:
            # an executor thread reports a completion while the scheduler is still processing the current event: it is
            # queued ahead of the job-start event the current event is about to queue (offered at job-start events only,
            # to keep the schedule space small)
            self.q.append(lab.complete_one())
        self.q.append(f)

    def empty(self):
        return not self.q and not self.lab.inflight

    def get(self, timeout=None):
        lab = self.lab
        lab.check_held("event")
        if self.q:
            if lab.early == 1 and lab.inflight and lab.pick(2, "early_completion") == 1:
                # an executor reports a completion while other events are still queued: it lands behind them
                self.q.append(lab.complete_one())
            return self.q.pop(0)
        if not lab.inflight:
            raise Deadlock("event queue empty, nothing in flight, workflow still pending; %d job(s) waiting for limits: %s" % (
                len(lab.sched._jobs_pending_limits), [j.task.name for j, _ in lab.sched._jobs_pending_limits]))
        return lab.complete_one()


class Lab:
    def __init__(self, pick, limits=None, early=False, backend=None, symbolic=False, resources=("r",), fifo_tasks=()):
        """pick(n, label) -> index: the schedule.  limits: resource -> int (possibly symbolic)."""
        logging.disable(logging.CRITICAL)
        self.pick = pick
        self.early = early
        self.symbolic = symbolic
        self.resources = list(resources)
        self.fifo_tasks = set(fifo_tasks)  # jobs of these tasks complete first, in submission order (schedule reduction)
        self.running = False
        self.inflight = []
        self.submissions = []  # (task fullname, eval_hash, args_hash, context_hash, job id)
        self.completions = []
        self.completion_log = []  # (task name, repr of the arguments) in completion order
        self.max_held = {}
        self.violations = []
        self.executor = LabExecutor("default", self)
        self.sched = RS.Scheduler(executor=self.executor, backend=backend)
        if backend is None:
            self.sched.load()
        self.sched.limits = dict(limits or {})
        self.sched.job_status_interval = None
        self.sched.events_queue = LabQueue(self)

    # ---- executor side ------------------------------------------------------------------
    def on_submit(self, job):
        self.inflight.append(job)
        self.submissions.append((job.task.fullname, job.eval_hash, job.args_hash, job.context_hash, job.id,
                                 job.get_option("cache_scope", None), job.recording_provenance()))
        self.check_held("submission of %s" % job.task.name)

    def held(self, resource):
        total = 0
        for j in self.inflight:
            total = total + j.get_limits().get(resource, 0)
        return total

    def check_held(self, when):
        """Units held by submitted-and-unfinished jobs never exceed the configured limit (1 if unconfigured)."""
        def chk():
            for r in self.resources:
                lim = self.sched.limits.get(r, 1)
                if self.held(r) > lim:
                    self.violations.append("at %s: %s unit(s) of %r held by jobs in flight %r, limit %s" % (
                        when, _show(self.held(r)), r, [j.task.name for j in self.inflight], _show(lim)))
                # units are returned exactly once: the scheduler's account never drops below what is really in flight
                # (it may be higher for a moment: a job rejected before reaching an executor returns its units when
                # its rejection event is processed)
                if self.sched.limits_used[r] < self.held(r):
                    self.violations.append("at %s: scheduler accounts %s unit(s) of %r in use, but jobs in flight hold %s" % (
                        when, _show(self.sched.limits_used[r]), r, _show(self.held(r))))
        if self.symbolic:
            with ResumedTracing():
                chk()
        else:
            chk()

    def complete_one(self):
        fifo = [i for i, j in enumerate(self.inflight) if j.task.name in self.fifo_tasks]
        if fifo:
            idx = fifo[0]
        else:
            n = len(self.inflight)
            idx = self.pick(n, "complete") if n > 1 else 0
        job = self.inflight.pop(idx)
        self.completions.append(job.id)
        args, kwargs = job.args
        self.completion_log.append((job.task.name, repr(args)))
        try:
            result = job.task.func(*args, **kwargs)
        except Exception as e:  # the task body failed: the executor reports the error
            err = e
            return lambda: self.sched._reject_job_main_thread(job, err)
        return lambda: self.sched._done_job_main_thread(job, result)

    # ---- running --------------------------------------------------------------------------
    def run(self, expr, **kw):
        """-> ('ok', value) | ('error', exception) | ('deadlock', message)"""
        try:
            self.running = True
            value = self.sched.run(expr, **kw)
            out = ("ok", value)
        except Deadlock as d:
            out = ("deadlock", str(d))
        except LimitExceeded as e:
            out = ("limit", str(e))
        except Exception as e:
            out = ("error", e)
        self.running = False
        self.check_held("end of run") if out[0] != "deadlock" else None
        return out

    def leftovers(self):
        """Bookkeeping that must be empty when a run ends."""
        s = self.sched
        problems = []
        if self.inflight:
            problems.append("jobs still in flight: %r" % [j.task.name for j in self.inflight])
        if s._jobs_pending_limits:
            problems.append("jobs still waiting for limits: %r" % [j.task.name for j, _ in s._jobs_pending_limits])
        if s._pending_jobs:
            problems.append("pending-job table not empty: %d" % len(s._pending_jobs))
        return problems


def _show(x):
    try:
        return repr(x)
    except Exception:
        return "?"
