"""Environment stubs shared by several harnesses (DESIGN §2.3: S1, S2, S3).

Each stub replaces a C-level boundary (where CrossHair would have to concretise a symbolic value)
by pure Python with the same contract, so that symbolic values keep flowing through the *real*
redun code.  Every stub has a concrete differential self-test (see ``selftest_*``).
"""
import importlib
import random
from typing import Any

from redun.value import Value


# --- S1: pure-Python BytesIO ------------------------------------------------------------------
class PyBytesIO:
    """Minimal in-memory binary file with io.BytesIO's contract for the calls redun.bcoding makes."""

    def __init__(self, data: bytes = b""):
        self.data = data
        self.pos = 0

    def write(self, b):
        # redun.bcoding only ever appends (the position is at the end while encoding).
        if not isinstance(b, (bytes, bytearray, memoryview)):
            raise TypeError("a bytes-like object is required, not '%s'" % type(b).__name__)
        self.data = self.data + (b if isinstance(b, bytes) else bytes(b))
        self.pos = len(self.data)
        return len(b)

    def getvalue(self):
        return self.data

    def seekable(self):
        return True

    def read(self, n=-1):
        if n is None or n < 0:
            r = self.data[self.pos:]
        else:
            r = self.data[self.pos:self.pos + n]
        self.pos += len(r)
        return r

    def seek(self, off, whence=0):
        if whence == 1:
            self.pos += off
        elif whence == 2:
            self.pos = len(self.data) + off
        else:
            self.pos = off
        return self.pos

    def peek(self, n=1):
        return self.data[self.pos:self.pos + n]


def install_pybytesio():
    bc = importlib.import_module("redun.bcoding")
    bc.BytesIO = PyBytesIO


def selftest_pybytesio(rng: random.Random, n: int = 200) -> int:
    import io

    for _ in range(n):
        a, b = io.BytesIO(), PyBytesIO()
        for _ in range(rng.randint(0, 5)):
            chunk = bytes(rng.randrange(256) for _ in range(rng.randint(0, 4)))
            a.write(chunk)
            b.write(chunk)
        assert a.getvalue() == b.getvalue()
        data = a.getvalue()
        a, b = io.BytesIO(data), PyBytesIO(data)
        for _ in range(6):
            op = rng.randint(0, 2)
            if op == 0:
                k = rng.randint(0, 3)
                assert a.read(k) == b.read(k)
            elif op == 1 and a.tell() > 0:
                a.seek(-1, 1)
                b.seek(-1, 1)
            else:
                assert a.read(1) == b.read(1)
    return n


# --- S2: structural hash ----------------------------------------------------------------------
def freeze(x: Any) -> Any:
    """Canonical hashable copy of a bencode-able pre-image (str/bytes/int/list/tuple/dict)."""
    if isinstance(x, (list, tuple)):
        return tuple(freeze(i) for i in x)
    if isinstance(x, dict):
        return ("<dict>",) + tuple((k, freeze(x[k])) for k in sorted(x))
    return x


class StructHash:
    """Value returned in place of a hex digest: compares by pre-image."""

    __slots__ = ("pre",)

    def __init__(self, pre):
        self.pre = pre

    def __eq__(self, other):
        return isinstance(other, StructHash) and self.pre == other.pre

    def __ne__(self, other):
        return not self.__eq__(other)

    def __hash__(self):
        return hash(self.pre)

    def __repr__(self):
        return "H%r" % (self.pre,)

    def __lt__(self, other):
        return repr(self.pre) < repr(other.pre)


def struct_hash(struct: Any) -> Any:
    return freeze(struct)


_HASH_STRUCT_USERS = [
    "redun.hashing", "redun.task", "redun.expression", "redun.value", "redun.file", "redun.handle",
    "redun.scheduler", "redun.backends.db", "redun.functools",
]


def install_struct_hash(modules=None):
    """Replace hash_struct by the identity on the canonical pre-image wherever it was imported.

    Assumption introduced: SHA-512/160 is collision-free and bencode is injective (C14), i.e. two
    digests are equal exactly when the pre-images are equal as bencode-able structures.
    """
    H = importlib.import_module("redun.hashing")
    H.hash_struct = struct_hash
    for name in modules or _HASH_STRUCT_USERS:
        try:
            m = importlib.import_module(name)
        except Exception:
            continue
        if hasattr(m, "hash_struct"):
            m.hash_struct = struct_hash


def selftest_struct_hash(rng: random.Random, n: int = 300) -> int:
    """equal canonical pre-images <=> equal real digests, on seeded random structures."""
    H = importlib.import_module("redun.hashing")
    real = H.__dict__.get("_real_hash_struct") or _real_hash_struct()

    def gen(d):
        k = rng.randint(0, 4 if d > 0 else 2)
        if k == 0:
            return rng.randint(-3, 3)
        if k == 1:
            return rng.choice(["", "a", "b", "ab"])
        if k == 2:
            return rng.choice(["T", "a"])
        if k == 3:
            return [gen(d - 1) for _ in range(rng.randint(0, 2))]
        return {rng.choice(["k", "l", "m"]): gen(d - 1) for _ in range(rng.randint(0, 2))}

    items = [gen(2) for _ in range(n)]
    for i in range(0, n - 1):
        a, b = items[i], items[rng.randrange(n)]
        assert (freeze(a) == freeze(b)) == (real(a) == real(b)), (a, b)
    return n


def _real_hash_struct():
    import hashlib

    from redun.bcoding import bencode

    def real(struct):
        return hashlib.sha512(bencode(struct)).hexdigest()[:40]

    return real


# --- S3: value tokens -------------------------------------------------------------------------
class Tok(Value):
    """An argument/result value whose redun hash is a (symbolic) integer token."""

    type_name = "vp.Tok"

    def __init__(self, h):
        self.h = h

    def get_hash(self, data=None):
        return self.h

    def __repr__(self):
        return "Tok(%r)" % (self.h,)
